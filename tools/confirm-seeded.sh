#!/bin/bash
# tools/confirm-seeded.sh <src-dir-with-seeded/> <crate> <demo test target> [extra cargo args for the demo]
#   e.g. tools/confirm-seeded.sh /tmp/sa/C19-a varpulis-runtime seeded_demo
# Independently confirms a sub-agent's seeded change in MY scratch worktree /tmp/sa/confirm (warm target
# /tmp/sa/confirm-target): (1) demo passes on the original code, (2) demo fails with the patch,
# (3) the crate's existing tests (everything but the demo) pass with the patch. Prints a summary; leaves the
# worktree clean. Nothing touches /repo.
set -u
SRC="$1"; CRATE="$2"; DEMO="$3"; shift 3
W=/tmp/sa/confirm
export CARGO_TARGET_DIR=/tmp/sa/confirm-target CARGO_NET_OFFLINE=true
reset() { git -C $W checkout -q -- . ; git -C $W clean -fdq -- crates; }
# the scratch worktree is created on demand (its first build is cold: ~10 min for one crate's tests)
if [ ! -d "$W" ]; then mkdir -p /tmp/sa; git -C /repo worktree add --detach "$W" HEAD >/dev/null 2>&1 || { echo "CONFIRM: cannot create $W"; exit 2; }; fi
reset
git -C $W checkout -q --detach "$(git -C /repo rev-parse HEAD)"
git -C $W apply "$SRC/seeded/demo.diff" || { echo "CONFIRM: demo.diff does not apply"; exit 2; }
cd $W
echo "== (1) demo on original code"
cargo test --offline -p "$CRATE" --test "$DEMO" "$@" 2>&1 | grep -E "^test result|^test .*(FAILED|ok)$|error(\[|:)" | head -20
R1=${PIPESTATUS[0]}
git -C $W apply "$SRC/seeded/patch.diff" || { echo "CONFIRM: patch.diff does not apply"; reset; exit 2; }
echo "== (2) demo with the patch"
cargo test --offline -p "$CRATE" --test "$DEMO" "$@" 2>&1 | grep -E "^test result|^test .*(FAILED|ok)$|error(\[|:)|panicked" | head -20
R2=${PIPESTATUS[0]}
echo "== (3) existing tests of $CRATE with the patch (demo excluded)"
rm -f "$W/crates/$CRATE/tests/$DEMO.rs"
cargo test --offline -p "$CRATE" --no-fail-fast "$@" > /tmp/sa/confirm-3.log 2>&1
R3=$?
grep -E "FAILED|failed|error(\[|:)" /tmp/sa/confirm-3.log | sort | uniq -c | head -20
if [ "$R3" != 0 ]; then
  # timing-sensitive targets flake under load: re-run each failed target alone, single-threaded
  R3=0
  grep -oE "to rerun pass \`[^\`]*\`" /tmp/sa/confirm-3.log | sed 's/to rerun pass `//; s/`$//' | sort -u | while read -r ARGS; do
    echo "-- re-running failed target alone: $ARGS"
    if ! cargo test --offline $ARGS -- --test-threads=1 2>&1 | grep -E "^test result|FAILED" | head -5; then :; fi
  done
  for ARGS in $(grep -oE "to rerun pass \`[^\`]*\`" /tmp/sa/confirm-3.log | sed 's/to rerun pass `//; s/`$//; s/ /,/g' | sort -u); do
    if ! cargo test --offline ${ARGS//,/ } -- --test-threads=1 >/dev/null 2>&1; then R3=1; fi
  done
fi
reset
echo "CONFIRM $(basename "$SRC"): demo-on-original exit=$R1 (want 0)  demo-with-patch exit=$R2 (want !=0)  existing-tests-with-patch exit=$R3 (want 0)"
