#!/bin/bash
# tools/agent-prompt.sh <ID> <tag>  — creates a scratch worktree /tmp/sa/<ID>-<tag> of /repo HEAD and prints the
# prompt for an independent sub-agent (property text only; nothing from /verif).
set -eu
ID="$1"; TAG="$2"
WT="/tmp/sa/$ID-$TAG"
mkdir -p /tmp/sa
if [ ! -d "$WT" ]; then git -C /repo worktree add --detach "$WT" HEAD >/dev/null 2>&1; fi
PROP=$(jq -r --arg id "$ID" 'select(.id==$id) | "Title: \(.title)\n\nStatement: \(.statement)\n\nQuantified over: \(.quantifier.text)\n\nWhy the existing tests cannot settle it: \(.why_tests_cant)\n\nCode anchors: \(.anchors.files|join(", "))\nMechanisms: \([.anchors.mechanism[]|"\(.name) @ \(.where)"]|join("; "))"' /verif/properties.jsonl)
EXTRA="${3:-}"
cat <<EOF
You are helping to evaluate a verification effort for the open-source Rust project varpulis (a complex-event-processing engine with a coordinator/worker cluster). Your job is to act as a *bug seeder*: write one realistic, subtle change to the project's source that BREAKS the semantic property below, while the project still compiles and its existing test suite still passes, and give a small demonstration that fails with your change and passes without it.

You have your own scratch git worktree of the repository at: $WT
Work ONLY inside that directory. Do NOT read, list or touch /verif or /repo (they are off limits: your work must be independent of them). No network is available; always pass --offline to cargo and set CARGO_TARGET_DIR=$WT/target for every cargo command (e.g. \`cd $WT && CARGO_TARGET_DIR=$WT/target cargo test --offline -p varpulis-runtime --lib some_filter\`). Builds are expensive (a cold debug build of one crate's tests takes several minutes, ~5-10 GB): build only the crate(s) you need with -p, never the whole workspace, and run tests with filters where you can. Other jobs share this 16-core machine.

THE PROPERTY
------------
$PROP

WHAT TO PRODUCE
---------------
1. A source change (to files under crates/ only; not to tests, not to Cargo.toml/Cargo.lock) that makes the property false. Requirements:
   - It must look like a plausible maintenance mistake or refactoring slip (an off-by-one, a dropped call, a reordered pair of writes, a wrong comparison, a forgotten field, a missing re-validation, an early return...), not sabotage: no special-casing of magic inputs, no dead/unreachable tricks, no panics added.
   - It must NOT be exposed by ordinary use: it should need something specific to manifest — a particular interleaving or schedule, a crash or fault at a particular point, a multi-step sequence of operations, a boundary value / unusual input, or two cooperating sites that each look fine alone. A change that breaks the first obvious use of the feature is not wanted.
   - The project must still compile, and the EXISTING tests of the crate(s) you touched must still pass unedited. Run them (\`cargo test --offline -p <crate>\` with CARGO_TARGET_DIR as above; for the varpulis-cluster crate the raft code is behind \`--features raft\`, and RocksDB storage behind \`--features persistent\` — the default test run does not compile those, but your change must still compile with the feature on if you touch that code: check with \`cargo check --offline -p varpulis-cluster --features raft\`; avoid \`persistent\` unless needed, its cold build takes ~8 minutes).
   - Ignore any code guarded by \`cfg(varpulis_verif)\` (instrumentation hooks); do not modify or rely on it.
   - Keep the change small (typically 1-15 changed lines, at most two sites).
2. A demonstration: a NEW test file (e.g. crates/<crate>/tests/seeded_demo.rs) or a small example program that exercises the public API, FAILS with your change applied and PASSES on the original code. Verify both directions yourself (use \`git stash\` / \`git diff\` to switch). The demonstration may use real time/threads if it must, but prefer deterministic construction of the triggering situation.
3. Write these files into $WT/seeded/ :
   - patch.diff   — \`git diff\` of the source change ONLY (without the demonstration), applicable with \`git apply\` at the repository root.
   - demo.diff    — \`git diff\`/new-file diff that adds the demonstration only (or copy the demo file itself next to it as well and say where it goes).
   - NOTES.md     — which part of the property the change breaks; what exactly is needed for the bug to manifest; the exact commands you ran (tests passing with the change, demo failing with / passing without) and their outcome.
4. When finished, delete the build output: \`rm -rf $WT/target\`. Leave the worktree and the seeded/ directory in place. Leave the working tree with BOTH your change and the demonstration applied.

$EXTRA
In your final message, summarise: the change (file:line, before/after), the trigger needed, and the verification you did. Be honest if anything could not be verified.
EOF
