#!/bin/bash
# tools/try-mutation.sh <patch.diff> <ID> [<ID>...]  — apply a patch to /repo, run the quick checks, revert.
# Prints one line per check: "<patch> <ID> exit=<code>". Never leaves /repo modified.
set -u
P="$(readlink -f "$1")"; shift
if ! git -C /repo diff --quiet; then echo "refusing: /repo has uncommitted changes" >&2; exit 2; fi
if ! git -C /repo apply --check "$P" 2>/dev/null; then echo "patch does not apply: $P" >&2; exit 2; fi
git -C /repo apply "$P"
trap 'git -C /repo checkout -- . ; git -C /repo clean -fdq -- crates >/dev/null 2>&1' EXIT
for ID in "$@"; do
  OUT=$(/verif/check "$ID" --tier "${TIER:-quick}" --scale "${SCALE:-1}" 2>&1); RC=$?
  echo "$(basename "$P") $ID exit=$RC"
  echo "$OUT" | grep -E "^(VIOLATION|KNOWN-FINDING|HARNESS-ERROR)" | cut -c1-260 | head -5
done
