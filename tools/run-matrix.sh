#!/bin/bash
# tools/run-matrix.sh [pattern]  — run every patch under /verif/mutations (and /verif/seeded/*/patch.diff) against the
# quick check of the property it targets, in the mutation lab (tools/mutlab.sh), and print one line per patch:
#   <patch> <ID> exit=<0 missed | 1 caught | 2 harness error>
# Results are appended to /tmp/mx/matrix.log. The property id is the file-name prefix (mutations/C12-....diff) or
# the "property" field of seeded/<id>/meta.json.
set -u
PAT="${1:-}"
LOG=/tmp/mx/matrix.log
for P in /verif/mutations/*.diff; do
  case "$(basename "$P")" in *"$PAT"*) ;; *) continue ;; esac
  ID="$(basename "$P" | cut -d- -f1)"
  /verif/tools/mutlab.sh try "$P" "$ID" 2>&1 | tee -a "$LOG"
done
for D in /verif/seeded/*/; do
  [ -f "$D/patch.diff" ] || continue
  case "$D" in *"$PAT"*) ;; *) continue ;; esac
  ID="$(jq -r .property "$D/meta.json")"
  /verif/tools/mutlab.sh try "$D/patch.diff" "$ID" 2>&1 | tee -a "$LOG"
done
