#!/bin/bash
# tools/mutlab.sh — a scratch "mutation lab": a private worktree of /repo plus a private copy of /verif's
# simulator pointed at it, so property-breaking patches can be tried without touching /repo and while other
# checks run against /repo. Everything lives under /tmp/mx (outside /repo and /verif); `mutlab.sh destroy` removes it.
#   mutlab.sh init                      create/refresh the lab and build all worlds
#   mutlab.sh sync                      copy /verif's current simulator sources + known-findings into the lab
#   mutlab.sh try <patch.diff> <ID>...  apply the patch in the lab repo, run the quick checks, revert
#   mutlab.sh clean <ID>...             run the checks on the lab's unpatched tree
#   mutlab.sh destroy
set -u
LAB=/tmp/mx
cmd="${1:-}"; shift || true
sync_verif() {
  mkdir -p "$LAB/verif"
  rsync -a --delete --exclude target --exclude replays-out --exclude .git --exclude evidence --exclude seeded /verif/ "$LAB/verif/"
  mkdir -p "$LAB/verif/evidence" "$LAB/target"; [ -e "$LAB/verif/target" ] || ln -sfn "$LAB/target" "$LAB/verif/target"
  # (the lab's build output stays in $LAB/target across syncs: verif/target is a symlink to it)
  sed -i "s#/repo/crates#$LAB/repo/crates#g" "$LAB"/verif/sim/*/Cargo.toml
  sed -i "s#/verif/target#$LAB/target#" "$LAB/verif/sim/.cargo/config.toml"
  # the check script takes its root from its own location; the build script reads VERIF_REPO
  sed -i "s#^export VERIF_ROOT=.*#export VERIF_ROOT=\"\$ROOT\"; export VERIF_REPO=$LAB/repo#" "$LAB/verif/check"
}
case "$cmd" in
  init)
    mkdir -p "$LAB"
    if [ ! -d "$LAB/repo" ]; then git -C /repo worktree add --detach "$LAB/repo" HEAD >/dev/null || exit 2; else git -C "$LAB/repo" checkout -q --detach "$(git -C /repo rev-parse HEAD)"; fi
    sync_verif
    (cd "$LAB/verif" && ./check build-all) ;;
  sync) sync_verif ;;
  try)
    P="$(readlink -f "$1")"; shift
    sync_verif
    git -C "$LAB/repo" checkout -q -- . ; git -C "$LAB/repo" clean -fdq -- crates
    git -C "$LAB/repo" checkout -q --detach "$(git -C /repo rev-parse HEAD)"
    if ! git -C "$LAB/repo" apply --check "$P" 2>/dev/null; then echo "patch does not apply: $P" >&2; exit 2; fi
    git -C "$LAB/repo" apply "$P"
    for ID in "$@"; do
      OUT=$("$LAB/verif/check" "$ID" --tier "${TIER:-quick}" --scale "${SCALE:-1}" 2>&1); RC=$?
      echo "$(basename "$(dirname "$P")")/$(basename "$P") $ID exit=$RC"
      echo "$OUT" | grep -E "^(VIOLATION|KNOWN-FINDING|HARNESS-ERROR)" | cut -c1-300 | head -6
      if [ "$RC" = 2 ]; then echo "$OUT" | tail -15; fi
    done
    git -C "$LAB/repo" checkout -q -- . ; git -C "$LAB/repo" clean -fdq -- crates ;;
  clean)
    sync_verif
    git -C "$LAB/repo" checkout -q -- . ; git -C "$LAB/repo" clean -fdq -- crates
    git -C "$LAB/repo" checkout -q --detach "$(git -C /repo rev-parse HEAD)"
    for ID in "$@"; do
      OUT=$("$LAB/verif/check" "$ID" --tier "${TIER:-quick}" --scale "${SCALE:-1}" 2>&1); RC=$?
      echo "clean $ID exit=$RC"; echo "$OUT" | grep -E "^(VIOLATION|HARNESS-ERROR)" | cut -c1-300 | head -6
    done ;;
  destroy)
    git -C /repo worktree remove --force "$LAB/repo" 2>/dev/null; rm -rf "$LAB" ;;
  *) echo "usage: mutlab.sh init|sync|try <patch> <ID>...|clean <ID>...|destroy" >&2; exit 2 ;;
esac
