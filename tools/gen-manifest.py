#!/usr/bin/env python3
"""Regenerates /verif/MANIFEST.json from the table below (single source of truth)."""
import json, subprocess
NA = {
"C01":"pure function of (program, event sequence): no schedule, clock, fault or crash point for a simulator to choose",
"C02":"pure function of (program, event sequence): Kleene enumeration has no schedule/fault dimension",
"C03":"pure function of (stream, caps); sase.rs clock reads serve within-deadlines only, which the property does not quantify over",
"C04":"pure differential over event streams; no schedule, time or I/O",
"C05":"pure; the sample strategy is a deterministic counter, no RNG/clock",
"C06":"ZDD set algebra: single-threaded data structure, no time, no I/O",
"C07":"ZDD canonicity: data-structure invariant, no time, no I/O",
"C08":"expression evaluation: pure function of (expression, event)",
"C09":"two evaluators on one event: pure function",
"C10":"compile-time constant folding rewrite: pure function",
"C11":"expression evaluation: pure function",
"C14":"aggregate arithmetic on a batch: pure function on three code paths",
"C16":"sequential differential of entry points; async paths never suspend without sinks; no schedule in it",
"C17":"routing table is a pure function of the program",
"C18":"parallelism is rayon's pool inside the CLI binary; no seam through which a simulator could own the schedule; workers share no state",
"C20":"codec round trip: pure function of a checkpoint value",
"C25":"trend counting vs brute force: pure counting function",
"C29":"finite route x credential matrix to enumerate; no schedule, clock or fault",
"C31":"validate_path is a function of (string, directory tree); no concurrent mutation in the property",
"C34":"route matching / replica hashing are pure; round-robin fairness is a sequential counter property",
"C39":"string rendering/parsing: pure",
"C40":"algebraic law on values: pure",
"C41":"parser totality: pure function of text",
"C42":"source-to-source expansion: pure",
"C43":"LSP request handlers are pure functions of (text, position)",
"C44":"JSON <-> value conversion: pure",
"C46":"two parsers on one text: pure",
}
PLANNED = "C12 C13 C15 C19 C21 C22 C23 C24 C26 C27 C28 C30 C32 C33 C35 C36 C37 C38 C45".split()
# id -> (world, design_ref, level text, level_note, technique)
CLAIMED = {
"C30": ("w4-timing", "DESIGN.md §4 C30",
  "Seeded exploration: the real RateLimiter/TokenBucket is driven by 1-5 simulated clients on a virtual monotonic clock (link-level clock_gettime seam) through tape-drawn request instants, clock stalls and jumps, eviction pressure and cleanup; the admission bound is checked over every pair of admissions of every tracking epoch of the recorded history, plus finite retry-after and no-panic for every config incl. rate 0 / burst 0. Evidence over sampled timing sequences, not a proof.",
  "Trusts the tracking-epoch model (cross-checked against client_count() after every step) and the glibc symbol interposition of clock_gettime; warp filter layer not exercised.",
  "deterministic simulation on a virtual clock (seeded request-time/fault tape, history oracle)"),
"C45": ("w4-timing", "DESIGN.md §4 C45",
  "Seeded exploration: the real ResilientSink + CircuitBreaker + DeadLetterQueue (real file) with 1-3 concurrent sender tasks polled by a manual executor; the tape decides which sender starts, which in-flight downstream call completes and how (ok/error/partial batch), and virtual time advances incl. exactly reset_timeout±1ns. Oracles: conservation (every handed event delivered or in a parseable DLQ line naming sink and error) and a reference breaker automaton (opens at exactly threshold, rejects until timeout, one probe while half-open, closes/reopens on the probe result).",
  "Downstream sink is a mock; DLQ write errors not injected (outside the quantifier); where the contract is silent (pre-open in-flight call completing during half-open, exactly == reset_timeout) the run is counted as not judged.",
  "deterministic simulation: manual executor + virtual clock + downstream fault injection, reference-automaton and conservation oracles"),
"C21": ("w2-store", "DESIGN.md §4 C21",
  "Seeded exploration plus per-history fault-point sweeps: real CheckpointManager + FileStore on a real directory; histories of saves, restarts, stray temp files and corruption of the newest file; crash, torn write (the file really written is cut to a prefix) and I/O error injected at tape-chosen H2 fault points inside FileStore::put/delete; the sweep batch re-executes each history once per fault point. After each restart recover() is compared with the ground truth read from the directory (newest complete checkpoint, never a partial one, fallback past an unreadable newest file, at most max_checkpoints after each completed save, ids increasing across restarts).",
  "Process-crash model (completed syscalls survive); power loss not modelled because FileStore never fsyncs. Ground truth uses the repo's codec::deserialize. A damaged file that still deserialises (format has no checksum) is not judged.",
  "deterministic simulation with crash/torn-write/IO-error injection at file-system fault points, per-history crash-point sweep, ground-truth oracle"),
"C22": ("w2-store", "DESIGN.md §4 C22",
  "Seeded exploration plus per-history crash-point sweeps: histories of up to 8 create/delete-tenant and deploy/delete/reload-pipeline requests through the real warp handlers on a FileStore-backed TenantManager, 1-3 crashes at tape-chosen fault points inside FileStore (sweep batch: every fault point); after each crash a fresh TenantManager recovers from the directory and must equal the model of acknowledged state, the single in-flight operation being allowed absent or present.",
  "HTTP socket layer bypassed (warp::test); store write errors without a crash are outside the quantifier; process-crash model.",
  "deterministic simulation with crash injection inside the store, reference model of acknowledged state"),
"C28": ("w2-store", "DESIGN.md §4 C28",
  "Seeded exploration of request histories over 2-3 tenants mixing every pipeline endpoint with own, foreign and unknown keys and pipeline ids, interleaved with management operations and crash+recovery (so foreign requests also hit a freshly rebuilt key index). Invariant after every request: every tenant other than the caller is bit-identical (pipelines, sources, statuses, usage counters, engine checkpoints); foreign requests are refused; responses never contain another tenant's ids or key.",
  "Observable state is read directly from the TenantManager; HTTP socket layer bypassed.",
  "deterministic simulation: request histories with crash/recovery, isolation invariant evaluated around every request"),
"C12": ("w1-engine", "DESIGN.md §4 C12",
  "Seeded exploration: tumbling/count/session windows (plain and partitioned), driven both as public structs and through the real Engine pipeline, fed by 1-3 simulated sources with their own event-time clocks on a coarse grid (ties, exact boundaries), with tape-interleaved watermark closes, wall-clock session sweeps incl. wall-clock jumps, stragglers and late arrivals after a watermark close. History oracle: exactly-once conservation incl. the final buffer, arrival order within and across windows per partition, count windows close with exactly N, tumbling end bound and session gap bound for in-order runs.",
  "Window boundaries of engine-level runs are recovered from which events one call emitted. Only what the statement requires is judged (no greedy-partition model).",
  "deterministic simulation: event-time sources with delivery disorder, watermark/sweep events on a virtual wall clock, conservation + ordering oracle"),
"C13": ("w1-engine", "DESIGN.md §4 C13 (weak DST content: in-order single streams, no faults)",
  "Seeded exploration against a time-indexed reference model per partition: every emission instant and its exact contents for time-sliding, count-sliding and partitioned sliding windows (public structs and Engine pipeline). The property quantifies over in-order streams only, so no fault or schedule is injected; the simulator contributes the discrete-event sources.",
  "slide <= size; first emission of time-sliding windows and instants exactly on the slide/size boundary are not judged (statement leaves them open).",
  "deterministic simulation (fault-free configuration) with reference model"),
"C15": ("w1-engine", "DESIGN.md §4 C15",
  "Seeded exploration: 2/3-way joins (JoinBuffer directly with per-key cap 2-4, and the real Engine join pipeline) fed by per-source event-time clocks; the disorder batch delivers stragglers after newer-stamped events so expiry and GC see unsorted buffers. Reference model from the statement at every arrival: must-exist / must-not-exist / most-recently-arrived-partner, with boundaries, cap displacement and expiry-by-progress explicitly not judged.",
  "Partners exactly at +-window, later than t+window, displaced by the cap, or older than the window relative to a newer-stamped earlier arrival are not judged.",
  "deterministic simulation: multi-source delivery disorder, reference model with explicit not-judged zones"),
"C19": ("w1-engine", "DESIGN.md §4 C19",
  "Seeded exploration plus per-history sweep of every cut point: one stateful feature per generated program (all window kinds plain/partitioned, sequences with all/not/within/key predicates, joins, distinct, limit, watermark+lateness), crash = force_checkpoint through the real CheckpointManager/codec/store, engine dropped, fresh engine auto-restores. Oracle: the uninterrupted run, compared output by output. Sub-millisecond runs are attributed to timestamp precision only if the ms-truncated twin of the same case does not diverge.",
  "Steps with equal outputs in a different order are not judged. Three known findings are listed in known-findings.txt (sub-ms truncation; sliding-count slide counter; partitioned sliding-count not checkpointed); every other divergence is a violation.",
  "deterministic simulation: crash/restore at arbitrary cuts via the real store path, differential oracle against the uninterrupted run"),
"C23": ("w1-engine", "DESIGN.md §4 C23",
  "Seeded exploration: program P (1-4 streams: filter, window, sequence, join), edit P' from a small grammar, reload as a reconfiguration event at any instant of a 6-30 event history (sometimes twice); three engines (never reloaded / reloaded / fresh on P') compared per stream over everything emitted after the reload.",
  "An unchanged stream inside a changed program may either keep its state or behave like fresh (statement only requires it to keep working).",
  "deterministic simulation: reconfiguration event in a history, three-engine differential oracle"),
"C24": ("w1-engine", "DESIGN.md §4 C24",
  "Seeded exploration: 2-3 sources with own event-time clocks, out-of-order bounds and allowed lateness, stragglers, idle sources that first speak late, external watermark announcements; the real PerSourceWatermarkTracker directly and the real Engine late-data gate. After every delivery: no source watermark decreased, effective == min over sources with a watermark, a dropped event was later than watermark - allowed lateness.",
  "Tracker state observed through its checkpoint (ms precision, timestamps on a 500 ms grid); every stream has an allowed_lateness; 'diverted' is judged as 'not processed' because VPL cannot configure the side output.",
  "deterministic simulation: multi-source delivery order, invariants after every delivery"),
}
def main():
    hooks = [l.split()[0] for l in subprocess.run(["git","-C","/repo","log","--format=%h %s"],capture_output=True,text=True).stdout.splitlines() if " verif-hook:" in " "+l]
    checks=[]
    for pid,(world,ref,text,note,tech) in sorted(CLAIMED.items()):
        checks.append({"property_id":pid,"quick_cmd":f"./check {pid} --tier quick","thorough_cmd":f"./check {pid} --tier thorough",
          "evidence_file":f"/verif/evidence/{pid}.json","replay_cmd_template":f"./check {pid} --replay {{path}}","engine":world,
          "level_claimed":{"category":"exploration","text":text,"design_ref":ref},"level_note":note,"technique":tech})
    worlds = {}
    for pid,(world,*_) in CLAIMED.items(): worlds.setdefault(world,[]).append(pid)
    m={"version":1,
     "setup_cmd":"./check build-all",
     "hooks":{"guard":"--cfg varpulis_verif","enable":"RUSTFLAGS '--cfg varpulis_verif --cfg tokio_unstable' via /verif/sim/.cargo/config.toml (used by ./check)","baseline_off_cmd":"cd /repo && cargo test --workspace --no-fail-fast --offline","source_commits":hooks,"add_only":True},
     "engines":[{"name":w,"path":f"/verif/sim/{w}","serves_properties":sorted(p),"kind_free_text":"deterministic simulator world (seeded choice tape, virtual clock/entropy via link-level seams, fault injection, replay+minimisation) built on /verif/sim/vsim-core"} for w,p in sorted(worlds.items())],
     "checks":checks,
     "notes":"Deterministic simulation with fault injection; see DESIGN.md. Exit 2 = harness error (never a verdict). known-findings.txt lists known/fixed defects.",
     "not_applicable":[{"property_id":k,"reason":"not a simulation target: "+v} for k,v in sorted(NA.items())]
       +[{"property_id":k,"reason":"simulation target (DESIGN.md §4); its world is not built yet, so it is not claimed"} for k in PLANNED if k not in CLAIMED]}
    json.dump(m,open('/verif/MANIFEST.json','w'),indent=1)
main()
