//! W3 — contexts world: the real ContextOrchestrator (real OS threads, real per-context tokio
//! runtimes, real engines) serialised by a seeded scheduler through the H1 turn-taking hook.
//! Exactly one context (or the harness) runs at a time; the tape chooses who.

use std::collections::{BTreeMap, VecDeque};
use std::sync::{Arc, Condvar, Mutex, OnceLock};

use tokio::sync::mpsc;
use varpulis_runtime::context::{ContextOrchestrator, DispatchError};
use varpulis_runtime::engine::Engine;
use varpulis_runtime::event::Event;
use varpulis_runtime::persistence::{CheckpointConfig, CheckpointManager, MemoryStore, StateStore};
use vsim_core::exec::block_on_ready;
use vsim_core::{Batch, Prop, Report, Tape, World};

vsim_core::interpose!();

// ───────────────────────── scheduler behind the H1 hook ─────────────────────────

#[derive(Default)]
struct Sched {
    parked: BTreeMap<String, String>,
    granted: Option<String>,
    free_run: bool,
    forwards: Vec<(String, String, String, bool)>,
    steps: u64,
}

fn sched() -> &'static (Mutex<Sched>, Condvar) {
    static S: OnceLock<(Mutex<Sched>, Condvar)> = OnceLock::new();
    S.get_or_init(|| (Mutex::new(Sched::default()), Condvar::new()))
}

fn install_hooks() {
    let turn: varpulis_runtime::verif::CtxTurnHook = Arc::new(|name: &str, label: &str| {
        let (m, cv) = sched();
        let mut g = m.lock().unwrap();
        if g.free_run {
            return;
        }
        g.parked.insert(name.to_string(), label.to_string());
        cv.notify_all();
        loop {
            if g.free_run {
                g.parked.remove(name);
                return;
            }
            if g.granted.as_deref() == Some(name) {
                g.granted = None;
                g.parked.remove(name);
                g.steps += 1;
                return;
            }
            g = cv.wait(g).unwrap();
        }
    });
    let fwd: varpulis_runtime::verif::CtxForwardHook = Arc::new(|from: &str, to: &str, ty: &str, ok: bool| {
        let (m, _) = sched();
        m.lock().unwrap().forwards.push((from.to_string(), to.to_string(), ty.to_string(), ok));
    });
    varpulis_runtime::verif::set_ctx_hooks(Some(turn), Some(fwd));
}

fn reset_sched() {
    let (m, _) = sched();
    *m.lock().unwrap() = Sched::default();
}

fn wait_all_parked(names: &[String]) {
    let (m, cv) = sched();
    let mut g = m.lock().unwrap();
    while !names.iter().all(|n| g.parked.contains_key(n)) {
        g = cv.wait(g).unwrap();
    }
}

/// Grant one step to `name` and wait until it reaches its next scheduling point.
fn grant(name: &str) {
    let (m, cv) = sched();
    let mut g = m.lock().unwrap();
    assert!(g.parked.contains_key(name), "vsim harness: granting a context that is not parked: {}", name);
    g.granted = Some(name.to_string());
    cv.notify_all();
    // the context removes itself from `parked` when it takes the grant, and re-inserts itself when the step ends
    while g.granted.is_some() || !g.parked.contains_key(name) {
        g = cv.wait(g).unwrap();
    }
}

fn free_run() {
    let (m, cv) = sched();
    m.lock().unwrap().free_run = true;
    cv.notify_all();
}

fn take_forwards() -> Vec<(String, String, String, bool)> {
    let (m, _) = sched();
    std::mem::take(&mut m.lock().unwrap().forwards)
}

// ───────────────────────── orchestrator under the scheduler ─────────────────────────

#[derive(Clone, Debug, PartialEq)]
enum Msg {
    /// an event carrying this input sequence number (stages preserve it)
    Ev(i64),
    Barrier,
}

struct Orch {
    o: Option<ContextOrchestrator>,
    out_rx: mpsc::Receiver<Event>,
    names: Vec<String>,
    cap: usize,
    /// exact model of every context queue (valid because exactly one party runs at a time)
    q: BTreeMap<String, VecDeque<Msg>>,
    routing: BTreeMap<String, String>,
}

impl Orch {
    fn build(src: &str, cap: usize, ckpt: Option<(CheckpointConfig, Arc<dyn StateStore>)>, recovery: Option<&varpulis_runtime::persistence::Checkpoint>) -> Orch {
        let program = varpulis_parser::parse(src).unwrap_or_else(|e| panic!("vsim harness: program rejected: {} :: {}", e, src));
        let (tmp_tx, _tmp_rx) = mpsc::channel(10);
        let mut tmp = Engine::new(tmp_tx);
        tmp.load(&program).unwrap_or_else(|e| panic!("vsim harness: load: {} :: {}", e, src));
        let (out_tx, out_rx) = mpsc::channel(100_000);
        let mut names: Vec<String> = tmp.context_map().contexts().keys().cloned().collect();
        names.sort();
        let o = ContextOrchestrator::build_with_checkpoint(tmp.context_map(), &program, out_tx, cap, ckpt, recovery).unwrap_or_else(|e| panic!("vsim harness: build: {}", e));
        // every context thread parks at "start"; let them start one at a time, in name order
        wait_all_parked(&names);
        for n in &names {
            grant(n);
        }
        let routing: BTreeMap<String, String> = o.ingress_routing().iter().map(|(k, v)| (k.clone(), v.clone())).collect();
        let q = names.iter().map(|n| (n.clone(), VecDeque::new())).collect();
        Orch { o: Some(o), out_rx, names, cap, q, routing }
    }
    fn drain_out(&mut self) -> Vec<Event> {
        let mut v = vec![];
        while let Ok(e) = self.out_rx.try_recv() {
            v.push(e);
        }
        v
    }
    fn runnable(&self) -> Vec<String> {
        self.names.iter().filter(|n| !self.q[*n].is_empty()).cloned().collect()
    }
    /// external producer: non-blocking dispatch; returns false when the ingress queue is full
    fn inject(&mut self, ev: Event) -> bool {
        let ty = ev.event_type.to_string();
        let seq = ev.get_int("seq").unwrap_or(-1);
        let target = self.routing.get(&ty).cloned();
        match self.o.as_ref().unwrap().try_process(Arc::new(ev)) {
            Ok(()) => {
                if let Some(t) = target {
                    self.q.get_mut(&t).unwrap().push_back(Msg::Ev(seq));
                }
                true
            }
            Err(DispatchError::ChannelFull(_)) => false,
            Err(DispatchError::ChannelClosed(_)) => panic!("vsim harness: context channel closed"),
        }
    }
    /// one scheduled step of a context: it dequeues exactly one message; returns what it dequeued
    fn step(&mut self, name: &str, rep: &mut Report) -> Msg {
        let m = self.q.get_mut(name).unwrap().pop_front().expect("vsim harness: stepping an idle context");
        grant(name);
        for (from, to, ty, ok) in take_forwards() {
            if ok {
                let seq = match &m { Msg::Ev(s) => *s, Msg::Barrier => -1 };
                self.q.get_mut(&to).unwrap().push_back(Msg::Ev(seq));
                if self.q[&to].len() > self.cap {
                    panic!("vsim harness: queue model exceeds capacity");
                }
            } else {
                rep.fault("forward-to-full-queue");
                rep.log(format!("   {} -> {} forward of {} FAILED: queue full ({} of {})", from, to, ty, self.q[&to].len(), self.cap));
            }
        }
        m
    }
    /// free-run, shut the orchestrator down, and return whatever was still emitted on the way out
    fn shutdown(mut self) -> Vec<Event> {
        free_run();
        if let Some(o) = self.o.take() {
            o.shutdown();
        }
        self.drain_out()
    }
}

fn program(nctx: usize, stateful_last: bool, ctx: bool) -> String {
    let mut s = String::new();
    if ctx {
        for i in 1..=nctx {
            s.push_str(&format!("context c{}\n", i));
        }
    }
    let names = ["A", "B", "C"];
    for i in 0..nctx {
        let src = if i == 0 { "Raw" } else { names[i - 1] };
        s.push_str(&format!("stream {} = {}\n", names[i], src));
        if ctx {
            s.push_str(&format!("  .context(c{})\n", i + 1));
        }
        if i == nctx - 1 && stateful_last {
            s.push_str("  .window(2)\n  .aggregate(n: count(), lo: first(seq), hi: last(seq))\n  .emit(n: n, lo: lo, hi: hi)\n");
        } else {
            s.push_str("  .emit(seq: seq, v: v)\n");
        }
    }
    s
}

fn canon(e: &Event) -> String {
    let mut f: Vec<String> = e.data.iter().map(|(k, v)| format!("{}={:?}", k, v)).collect();
    f.sort();
    format!("{}{{{}}}", e.event_type, f.join(","))
}

fn raw(seq: i64) -> Event {
    Event::new("Raw").with_field("seq", seq).with_field("v", seq % 5)
}

// ───────────────────────────── C26 ─────────────────────────────

/// A generated stream topology for the `topologies*` batches: a forest in which every stream has exactly one
/// upstream (a raw event type or an earlier stream), so the property's precondition holds by construction.
struct Topo {
    with_ctx: String,
    without_ctx: String,
    raws: Vec<String>,
    /// streams downstream of a stream (or raw type) whose consumers live in more than one context
    behind_fanout: std::collections::BTreeSet<String>,
}

fn topology(tape: &mut Tape, nctx: usize, allow_fanout: bool) -> Topo {
    let nstreams = tape.range(2, 5) as usize;
    // upstream: Err(raw type) | Ok(stream index)
    let mut ups: Vec<Result<usize, String>> = vec![];
    let mut raws = vec!["Raw".to_string()];
    for i in 0..nstreams {
        if i == 0 {
            ups.push(Err("Raw".into()));
        } else if raws.len() < 2 && tape.chance(1, 6) {
            raws.push("Raw2".into());
            ups.push(Err("Raw2".into()));
        } else {
            ups.push(Ok(tape.draw(i as u64) as usize));
        }
    }
    let mut has_consumer = vec![false; nstreams];
    for u in ups.iter().flatten() {
        has_consumer[*u] = true;
    }
    let mut with_ctx = String::new();
    let mut without_ctx = String::new();
    for i in 1..=nctx {
        with_ctx.push_str(&format!("context c{}\n", i));
    }
    let mut ctx_of: Vec<u64> = vec![];
    // contexts in which each stream's consumers live
    let mut consumer_ctxs: Vec<std::collections::BTreeSet<u64>> = vec![Default::default(); nstreams];
    for i in 0..nstreams {
        let name = format!("S{}", i);
        let mut ctx = tape.range(1, nctx as u64);
        if let Ok(u) = &ups[i] {
            // without fan-out every consumer of a stream lives in the context of its first consumer
            if !allow_fanout {
                if let Some(first) = consumer_ctxs[*u].iter().next() {
                    ctx = *first;
                }
            }
            consumer_ctxs[*u].insert(ctx);
        }
        ctx_of.push(ctx);
        let src = match &ups[i] {
            Err(raw) => raw.clone(),
            Ok(u) => match tape.draw(4) {
                0 => format!("S{} as up", u),
                1 => format!("merge(S{})", u),
                _ => format!("S{}", u),
            },
        };
        let op = if !has_consumer[i] && tape.chance(1, 4) {
            "  .window(2)\n  .aggregate(n: count(), lo: first(seq), hi: last(seq))\n  .emit(seq: lo, v: n, hi: hi)\n".to_string()
        } else if tape.chance(1, 3) {
            format!("  .where(v > {})\n  .emit(seq: seq, v: v)\n", tape.draw(3))
        } else {
            "  .emit(seq: seq, v: v)\n".to_string()
        };
        with_ctx.push_str(&format!("stream {} = {}\n  .context(c{})\n{}", name, src, ctx, op));
        without_ctx.push_str(&format!("stream {} = {}\n{}", name, src, op));
    }
    let mut behind_fanout = std::collections::BTreeSet::new();
    for i in 0..nstreams {
        let mut cur = i;
        loop {
            match &ups[cur] {
                Ok(u) => {
                    if consumer_ctxs[*u].len() > 1 { behind_fanout.insert(format!("S{}", i)); break; }
                    cur = *u;
                }
                Err(_) => break,
            }
        }
    }
    Topo { with_ctx, without_ctx, raws, behind_fanout }
}

fn run_c26(batch: &str, tape: &mut Tape, rep: &mut Report) {
    let topo_mode = batch.starts_with("topologies");
    let nctx = tape.range(2, 3) as usize;
    let stateful = if topo_mode { false } else { tape.chance(1, 3) };
    let cap = if batch.ends_with("large-queues") || batch == "topologies-fanout" { 1000 } else { tape.range(1, 8) as usize };
    let n = tape.range(10, 60) as i64;
    let topo = if topo_mode { Some(topology(tape, nctx, batch == "topologies-fanout")) } else { None };
    let src = match &topo { Some(t) => t.with_ctx.clone(), None => program(nctx, stateful, true) };
    // which raw type each input carries (topologies may have two ingress types, possibly into different contexts)
    let kinds: Vec<String> = (0..n).map(|_| match &topo { Some(t) if t.raws.len() > 1 && tape.chance(1, 2) => t.raws[1].clone(), _ => "Raw".to_string() }).collect();
    let raw = |seq: i64| -> Event { Event::new(kinds[seq as usize].as_str()).with_field("seq", seq).with_field("v", seq % 5) };
    rep.config = format!("contexts={} last_stage_stateful={} channel_capacity={} inputs={}{}", nctx, stateful, cap, n, if topo_mode { " generated-topology" } else { "" });
    rep.log(format!("config {} program={:?}", rep.config, src));

    reset_sched();
    let mut o = Orch::build(&src, cap, None, None);
    let mut got: Vec<Event> = vec![];
    let mut next = 0i64;
    let mut stalled: Option<(String, u64)> = None;
    let mut guard = 0u64;
    let mut full_at_ingress = 0u64;
    let mut broken = false;
    loop {
        guard += 1;
        if guard > 5000 {
            rep.violate("harness-no-quiescence", "-", "run did not reach quiescence");
            break;
        }
        let runnable: Vec<String> = o.runnable().into_iter().filter(|r| stalled.as_ref().map(|(s, _)| s != r).unwrap_or(true)).collect();
        if next >= n && o.runnable().is_empty() {
            break;
        }
        if let Some((s, k)) = stalled.clone() {
            if k == 0 || (runnable.is_empty() && next >= n) {
                stalled = None;
            } else {
                stalled = Some((s, k - 1));
            }
        }
        // occasionally stall one context for a while so that its queue fills
        if stalled.is_none() && tape.chance(1, 12) {
            let victim = o.names[tape.draw(o.names.len() as u64) as usize].clone();
            stalled = Some((victim.clone(), tape.range(2, 12)));
            rep.fault("context-stalled");
            rep.log(format!("stall {}", victim));
            continue;
        }
        let can_inject = next < n;
        let choice = if can_inject && (runnable.is_empty() || tape.chance(1, 2)) { 0 } else if !runnable.is_empty() { 1 } else { 2 };
        match choice {
            0 => {
                let burst = if tape.chance(1, 4) { tape.range(2, 6) } else { 1 };
                for _ in 0..burst {
                    if next >= n {
                        break;
                    }
                    if o.inject(raw(next)) {
                        rep.log(format!("inject Raw seq={}", next));
                        next += 1;
                        rep.ops += 1;
                    } else {
                        full_at_ingress += 1;
                        rep.probe("ingress-queue-full-producer-waits");
                        break;
                    }
                }
            }
            1 => {
                let c = runnable[tape.draw(runnable.len() as u64) as usize].clone();
                let m = o.step(&c, rep);
                let out = o.drain_out();
                // a stateless stage emits exactly the event it dequeued: compare with the queue model, so that a
                // message the model does not know about (duplicate, reordering) is caught at the step it surfaces
                let stage = c.trim_start_matches('c').parse::<usize>().unwrap_or(0);
                let stateless_stage = !topo_mode && !(stateful && stage == nctx);
                if let (true, Msg::Ev(want)) = (stateless_stage, &m) {
                    let seen: Vec<i64> = out.iter().map(|e| e.get_int("seq").unwrap_or(-1)).collect();
                    if seen != vec![*want] {
                        rep.log(format!("step {} -> {:?}", c, out.iter().map(canon).collect::<Vec<_>>()));
                        let dup = seen.iter().any(|s| got.iter().any(|g| g.event_type == out[0].event_type && g.get_int("seq") == Some(*s)));
                        let cls = if dup { "cross-context-event-duplicated" } else { "cross-context-order-changed" };
                        rep.violate(cls, "delivery-differs-from-production-order", format!("context {} was due to receive seq={} (production order) but processed {:?}", c, want, seen));
                        got.extend(out);
                        broken = true;
                        break;
                    }
                }
                rep.log(format!("step {} -> {:?}  queues={:?}", c, out.iter().map(canon).collect::<Vec<_>>(), o.q.iter().map(|(k, v)| (k.clone(), v.len())).collect::<Vec<_>>()));
                rep.state(vsim_core::rng::mix(&o.q.values().map(|v| v.len() as u64).collect::<Vec<_>>()));
                got.extend(out);
            }
            _ => {
                // nothing runnable except a stalled context and nothing to inject: release the stall
                stalled = None;
            }
        }
    }
    let failed_forwards = rep.faults.get("forward-to-full-queue").copied().unwrap_or(0);
    let late = o.shutdown();
    if broken {
        return;
    }
    // Output emitted after the scheduler let go is not judged: it can only exist when a context queue held a
    // message the queue model does not know about, and whether it is processed before the shutdown signal is a
    // real race. Such a message already shows up as a differing output at the scheduled step that consumed it.
    let _ = late;
    let _ = full_at_ingress;

    // reference: the same program without contexts, one engine
    let plain = match &topo { Some(t) => t.without_ctx.clone(), None => program(nctx, stateful, false) };
    let (tx, mut rx) = mpsc::channel(100_000);
    let mut e = Engine::new(tx);
    e.load(&varpulis_parser::parse(&plain).expect("plain")).expect("plain load");
    for i in 0..n {
        block_on_ready(e.process(raw(i))).expect("process");
    }
    let mut want: Vec<Event> = vec![];
    while let Ok(x) = rx.try_recv() {
        want.push(x);
    }
    // per-stream order and multiset
    let group = |v: &Vec<Event>| {
        let mut m: BTreeMap<String, Vec<String>> = BTreeMap::new();
        for e in v {
            m.entry(e.event_type.to_string()).or_default().push(canon(e));
        }
        m
    };
    let (gw, gg) = (group(&want), group(&got));
    let sig_loss = if failed_forwards > 0 { "drain_and_route_output:try_send-Full" } else { "no-failed-forward" };
    for (stream, w) in &gw {
        let empty = vec![];
        let g = gg.get(stream).unwrap_or(&empty);
        if w == g {
            continue;
        }
        // a stream whose upstream chain contains a stream consumed from several contexts: the routing table holds
        // one consuming context per stream name, so only one of those consumers is ever fed (known finding)
        let sig_loss = if topo.as_ref().map(|t| t.behind_fanout.contains(stream)).unwrap_or(false) { "one-route-per-stream:consumers-in-several-contexts" } else { sig_loss };
        let mut ws = w.clone();
        let mut gs = g.clone();
        ws.sort();
        gs.sort();
        if ws == gs {
            rep.violate("cross-context-order-changed", stream, format!("stream {}: same events, different order: without contexts {:?}, with contexts {:?}", stream, w, g));
        } else if g.len() < w.len() {
            let missing: Vec<&String> = w.iter().filter(|x| !g.contains(x)).take(5).collect();
            rep.violate("cross-context-event-lost", sig_loss, format!("stream {}: {} outputs without contexts, {} with contexts; e.g. missing {:?} ({} forwards hit a full queue)", stream, w.len(), g.len(), missing, failed_forwards));
        } else if g.len() > w.len() {
            rep.violate("cross-context-event-duplicated", stream, format!("stream {}: {} outputs without contexts, {} with contexts", stream, w.len(), g.len()));
        } else {
            rep.violate("cross-context-output-differs", sig_loss, format!("stream {}: without contexts {:?}, with contexts {:?}", stream, w, g));
        }
    }
    for stream in gg.keys() {
        if !gw.contains_key(stream) {
            rep.violate("cross-context-output-differs", "unknown-stream", format!("stream {} emitted only with contexts", stream));
        }
    }
    if failed_forwards > 0 {
        rep.probe("queue-full-at-forward");
    }
    rep.nontrivial = n >= 10 && got.len() >= 10;
    if topo_mode {
        if src.contains(" as up") { rep.probe("aliased-cross-stream-source"); }
        if src.contains("merge(") { rep.probe("merge-source"); }
        if src.contains("Raw2") { rep.probe("two-ingress-types"); }
        if topo.as_ref().map(|t| !t.behind_fanout.is_empty()).unwrap_or(false) { rep.probe("stream-consumed-from-several-contexts"); }
    }
}

// ───────────────────────────── C27 ─────────────────────────────

/// Recovery after the crash: a new orchestrator built from the stored checkpoint, replay of the inputs the ingress
/// context had not consumed at its snapshot, then a final coordinated snapshot of the consumer: every input exactly once.
fn recover_and_judge(src: &str, store: Arc<dyn StateStore>, cfg: CheckpointConfig, replay_from: i64, n: i64, in_flight_across_cut: u64, cuts: (u64, u64), rep: &mut Report) {

    // recovery: new orchestrator from the stored checkpoint + replay of the inputs not consumed before the barrier
    let mgr = CheckpointManager::new(store.clone(), cfg.clone()).expect("manager");
    let cp = match mgr.recover() {
        Ok(Some(c)) => c,
        other => {
            rep.violate("completed-checkpoint-not-recoverable", "-", format!("recover() = {:?}", other.map(|o| o.map(|c| c.id))));
            return;
        }
    };
    drop(mgr);
    // the snapshots assembled into the completed checkpoint must be the ones each context took at the barrier of
    // THIS checkpoint: their own processed-event counters say how much each had consumed when it took its snapshot
    for (ctx, want) in [("c1", cuts.0), ("c2", cuts.1)] {
        if let Some(ec) = cp.context_states.get(ctx) {
            if ec.events_processed != want {
                rep.violate("checkpoint-holds-a-snapshot-from-another-barrier", ctx, format!("completed checkpoint {}: the snapshot of {} was taken after {} events, but {} had consumed {} events when it handled the barrier of this checkpoint", cp.id, ctx, ec.events_processed, ctx, want));
            }
        } else {
            rep.violate("checkpoint-holds-a-snapshot-from-another-barrier", "missing", format!("completed checkpoint {} has no snapshot of {}", cp.id, ctx));
        }
    }
    reset_sched();
    let store2: Arc<dyn StateStore> = Arc::new(MemoryStore::new());
    let mut o2 = Orch::build(src, 1000, Some((cfg.clone(), store2.clone())), Some(&cp));
    for i in replay_from..n {
        assert!(o2.inject(raw(i)));
    }
    rep.log(format!("recovered from checkpoint {}; replaying inputs {}..{}", cp.id, replay_from, n));
    // run to quiescence (schedule irrelevant here: queues are large), then snapshot B through a second coordinated checkpoint
    let mut guard = 0;
    while let Some(c) = o2.runnable().last().cloned() {
        o2.step(&c, rep);
        guard += 1;
        if guard > 5000 {
            break;
        }
    }
    o2.o.as_mut().unwrap().trigger_checkpoint();
    for c in o2.names.clone() {
        o2.q.get_mut(&c).unwrap().push_back(Msg::Barrier);
    }
    while let Some(c) = o2.runnable().last().cloned() {
        o2.step(&c, rep);
    }
    let done = o2.o.as_mut().unwrap().try_complete_checkpoint();
    o2.shutdown();
    if !matches!(done, Ok(true)) {
        rep.violate("harness-no-checkpoint", "final", "final snapshot did not complete");
        return;
    }
    let fin = CheckpointManager::new(store2, cfg).expect("manager").recover().ok().flatten();
    let Some(fin) = fin else {
        rep.violate("harness-no-checkpoint", "final", "final snapshot missing");
        return;
    };
    let mut counts: BTreeMap<i64, u32> = BTreeMap::new();
    if let Some(b) = fin.context_states.get("c2") {
        for (_, w) in &b.window_states {
            for se in w.events.iter().chain(w.partitions.values().flat_map(|p| p.events.iter())) {
                let ev: Event = se.clone().into();
                *counts.entry(ev.get_int("seq").unwrap_or(-1)).or_insert(0) += 1;
            }
        }
    }
    let lost: Vec<i64> = (0..n).filter(|i| !counts.contains_key(i)).collect();
    let dup: Vec<i64> = counts.iter().filter(|(_, c)| **c > 1).map(|(k, _)| *k).collect();
    rep.log(format!("consumer state after recovery + replay: {} distinct events, lost {:?}, duplicated {:?}", counts.len(), lost, dup));
    if !lost.is_empty() {
        let sig = if in_flight_across_cut > 0 { "in-flight-across-cut" } else { "nothing-in-flight" };
        rep.violate("event-lost-across-checkpoint", sig, format!("events {:?} passed from c1 to c2 are in neither the restored consumer state nor the replay ({} were in flight when c2 took its snapshot)", lost, in_flight_across_cut));
    }
    if !dup.is_empty() {
        rep.violate("event-duplicated-across-checkpoint", "-", format!("events {:?} reached the consumer twice", dup));
    }
}


fn run_c27(batch: &str, tape: &mut Tape, rep: &mut Report) {
    // chain Raw -> A(c1) -> B(c2): B buffers everything it consumes in a large count window,
    // so its snapshot is exactly the set of cross-context events whose effect it contains.
    let cap = 1000usize; // large on purpose: queue-full drops belong to C26, this property is about the cut
    let n = tape.range(4, 30) as i64;
    let src = "context c1\ncontext c2\nstream A = Raw\n  .context(c1)\n  .emit(seq: seq, v: v)\nstream B = A\n  .context(c2)\n  .window(100000)\n  .aggregate(n: count())\n  .emit(n: n)\n";
    rep.config = format!("channel_capacity={} inputs={} batch={}", cap, n, batch);
    rep.log(format!("config {}", rep.config));
    let store: Arc<dyn StateStore> = Arc::new(MemoryStore::new());
    let cfg = CheckpointConfig { max_checkpoints: 3, ..Default::default() };

    reset_sched();
    let mut o = Orch::build(src, cap, Some((cfg.clone(), store.clone())), None);
    let trigger_at = tape.range(1, n as u64) as i64;
    let mut next = 0i64;
    let mut triggered = false;
    let mut completed = false;
    let mut replay_from: i64 = 0;
    let mut guard = 0;
    let mut b_consumed_before_barrier = 0u64;
    let mut a_consumed_before_barrier = 0u64;
    let mut a_barrier_done = false;
    let mut b_barrier_done = false;
    while !completed {
        guard += 1;
        if guard > 3000 {
            rep.violate("harness-no-checkpoint", "-", "checkpoint never completed");
            o.shutdown();
            return;
        }
        if !triggered && next >= trigger_at {
            // barrier injection: straight into every context queue
            let room = o.names.iter().all(|c| o.q[c].len() < o.cap);
            // lockstep batch: barriers are injected only at quiescence, so nothing can be in flight across the cut
            let quiescent = o.names.iter().all(|c| o.q[c].is_empty());
            if room && (batch != "lockstep" || quiescent) {
                o.o.as_mut().unwrap().trigger_checkpoint();
                for c in o.names.clone() {
                    o.q.get_mut(&c).unwrap().push_back(Msg::Barrier);
                }
                triggered = true;
                replay_from = next; // inputs [0, next) sit before the barrier in the ingress queue
                rep.fault("barrier-injected");
                rep.log(format!("trigger_checkpoint after {} inputs; queues={:?}", next, o.q.iter().map(|(k, v)| (k.clone(), v.len())).collect::<Vec<_>>()));
                continue;
            }
        }
        let runnable = o.runnable();
        let lockstep = batch == "lockstep";
        let inject = next < n && (runnable.is_empty() || (!lockstep && tape.chance(1, 2)) || (lockstep && runnable.is_empty()));
        if inject {
            if o.inject(raw(next)) {
                rep.log(format!("inject Raw seq={}", next));
                next += 1;
                rep.ops += 1;
            }
            continue;
        }
        if runnable.is_empty() {
            if triggered {
                match o.o.as_mut().unwrap().try_complete_checkpoint() {
                    Ok(true) => completed = true,
                    Ok(false) => {
                        rep.violate("harness-no-checkpoint", "-", "all queues empty but checkpoint not complete");
                        o.shutdown();
                        return;
                    }
                    Err(e) => {
                        rep.violate("checkpoint-store-error", "-", format!("{}", e));
                        o.shutdown();
                        return;
                    }
                }
            } else if next >= n {
                // never reached the trigger point (n small): trigger now
                continue;
            }
            continue;
        }
        // lockstep batch: always drain downstream first so nothing is ever in flight across the cut
        let c = if lockstep { runnable.last().unwrap().clone() } else { runnable[tape.draw(runnable.len() as u64) as usize].clone() };
        let m = o.step(&c, rep);
        let _ = o.drain_out();
        rep.log(format!("step {} dequeued {:?} queues={:?}", c, m, o.q.iter().map(|(k, v)| (k.clone(), v.len())).collect::<Vec<_>>()));
        match (c.as_str(), &m) {
            ("c1", Msg::Ev(_)) if !a_barrier_done => a_consumed_before_barrier += 1,
            ("c2", Msg::Ev(_)) if !b_barrier_done => b_consumed_before_barrier += 1,
            ("c1", Msg::Barrier) => a_barrier_done = true,
            ("c2", Msg::Barrier) => b_barrier_done = true,
            _ => {}
        }
        if triggered && a_barrier_done && b_barrier_done {
            match o.o.as_mut().unwrap().try_complete_checkpoint() {
                Ok(true) => completed = true,
                Ok(false) => {}
                Err(e) => {
                    rep.violate("checkpoint-store-error", "-", format!("{}", e));
                    o.shutdown();
                    return;
                }
            }
        }
    }
    let in_flight_across_cut = a_consumed_before_barrier.saturating_sub(b_consumed_before_barrier);
    rep.log(format!("checkpoint complete: A consumed {} inputs before its barrier, B consumed {} forwarded events before its barrier => {} in flight across the cut", a_consumed_before_barrier, b_consumed_before_barrier, in_flight_across_cut));
    if in_flight_across_cut > 0 {
        rep.probe("event-in-flight-across-the-cut");
    }
    // crash: the process dies right after the checkpoint was reported complete
    rep.fault("crash-after-completed-checkpoint");
    o.shutdown();
    recover_and_judge(src, store, cfg, replay_from, n, in_flight_across_cut, (a_consumed_before_barrier, b_consumed_before_barrier), rep);
    rep.nontrivial = replay_from > 0 && replay_from < n;
}


/// Batch `rejected-barriers`: small queues, checkpoints triggered at any time — also while a context queue is
/// full, so that a barrier is rejected — and triggered again later. Whatever checkpoint is eventually reported
/// complete must be a consistent cut. Which queues actually received a barrier is read from the real channels
/// (H1b accessor), not assumed.
fn run_c27_rejected(tape: &mut Tape, rep: &mut Report) {
    let cap = tape.range(1, 3) as usize;
    let n = tape.range(6, 30) as i64;
    // half of the runs keep the consumer's buffer in a partitioned count window (several partitions hold events at the cut)
    let partitioned = tape.chance(1, 2);
    let src_s = format!("context c1\ncontext c2\nstream A = Raw\n  .context(c1)\n  .emit(seq: seq, v: v)\nstream B = A\n  .context(c2)\n{}  .window(100000)\n  .aggregate(n: count())\n  .emit(n: n)\n", if partitioned { "  .partition_by(v)\n" } else { "" });
    let src = src_s.as_str();
    rep.config = format!("channel_capacity={} inputs={} consumer_partitioned={} batch=rejected-barriers", cap, n, partitioned);
    rep.log(format!("config {}", rep.config));
    let store: Arc<dyn StateStore> = Arc::new(MemoryStore::new());
    let cfg = CheckpointConfig { max_checkpoints: 3, ..Default::default() };
    reset_sched();
    let mut o = Orch::build(src, cap, Some((cfg.clone(), store.clone())), None);
    let lens = |o: &Orch| -> BTreeMap<String, usize> { o.o.as_ref().unwrap().verif_queue_lens().into_iter().collect() };
    let (mut next, mut triggers, mut rejected) = (0i64, 0u64, 0u64);
    let (mut a_consumed, mut b_consumed) = (0u64, 0u64);
    let (mut a_cut, mut b_cut): (Option<u64>, Option<u64>) = (None, None);
    let mut completed = false;
    let mut guard = 0;
    while !completed {
        guard += 1;
        if guard > 4000 {
            rep.violate("harness-no-quiescence", "-", "run did not end");
            o.shutdown();
            return;
        }
        // the queue model must agree with the real channels at every scheduling point
        let real = lens(&o);
        for c in &o.names {
            if real.get(c).copied().unwrap_or(0) != o.q[c].len() {
                rep.violate("harness-queue-model-mismatch", "-", format!("context {}: channel holds {} messages, model {:?}", c, real.get(c).copied().unwrap_or(0), o.q[c]));
                o.shutdown();
                return;
            }
        }
        // a forward from c1 must find room in c2's queue (queue-full drops are C26's subject, not this property's)
        let runnable: Vec<String> = o.runnable().into_iter().filter(|c| c != "c1" || o.q["c2"].len() < o.cap).collect();
        let idle = runnable.is_empty() && next >= n;
        let want_trigger = triggers < 5 && next >= 1 && (tape.chance(1, 6) || (idle && o.runnable().is_empty()));
        if want_trigger {
            let before = lens(&o);
            o.o.as_mut().unwrap().trigger_checkpoint();
            let after = lens(&o);
            triggers += 1;
            let mut got = vec![];
            for c in o.names.clone() {
                if after.get(&c).copied().unwrap_or(0) > before.get(&c).copied().unwrap_or(0) {
                    o.q.get_mut(&c).unwrap().push_back(Msg::Barrier);
                    got.push(c);
                }
            }
            let full: Vec<&String> = o.names.iter().filter(|c| before.get(*c).copied().unwrap_or(0) >= o.cap).collect();
            // partial delivery: some context got the barrier and another one, whose queue was full, did not
            if !got.is_empty() && got.len() < o.names.len() {
                rejected += 1;
                rep.fault("barrier-rejected-by-a-full-queue");
            }
            rep.fault("barrier-injected");
            rep.log(format!("trigger_checkpoint #{} after {} inputs: barrier queued for {:?} (full before: {:?}); queues={:?}", triggers, next, got, full, o.q.iter().map(|(k, v)| (k.clone(), v.len())).collect::<Vec<_>>()));
        } else if next < n && (runnable.is_empty() || tape.chance(1, 2)) {
            if o.inject(raw(next)) {
                rep.log(format!("inject Raw seq={}", next));
                next += 1;
                rep.ops += 1;
            } else if runnable.is_empty() {
                // ingress full and nobody can run (c2 full and stalled by the rule above cannot happen: c2 is always runnable when non-empty)
                rep.violate("harness-no-quiescence", "-", "ingress full and nothing runnable");
                o.shutdown();
                return;
            }
        } else if let Some(c) = if runnable.is_empty() { None } else { Some(runnable[tape.draw(runnable.len() as u64) as usize].clone()) } {
            let m = o.step(&c, rep);
            let _ = o.drain_out();
            rep.log(format!("step {} dequeued {:?} queues={:?}", c, m, o.q.iter().map(|(k, v)| (k.clone(), v.len())).collect::<Vec<_>>()));
            match (c.as_str(), &m) {
                ("c1", Msg::Ev(_)) => a_consumed += 1,
                ("c2", Msg::Ev(_)) => b_consumed += 1,
                ("c1", Msg::Barrier) => a_cut = Some(a_consumed),
                ("c2", Msg::Barrier) => b_cut = Some(b_consumed),
                _ => {}
            }
        } else if idle && triggers >= 5 {
            break;
        } else if idle {
            continue;
        }
        // the owner of the orchestrator polls for completion on its own schedule (not after every step)
        if !idle && !tape.chance(1, 3) {
            continue;
        }
        match o.o.as_mut().unwrap().try_complete_checkpoint() {
            Ok(true) => completed = true,
            Ok(false) => {}
            Err(e) => {
                rep.violate("checkpoint-store-error", "-", format!("{}", e));
                o.shutdown();
                return;
            }
        }
    }
    if !completed {
        // on this tree a rejected barrier leaves the checkpoint pending for ever (later triggers are skipped): a
        // liveness problem outside this property; counted, not judged
        rep.probe("no-checkpoint-ever-completed-after-a-rejected-barrier");
        rep.log(format!("no checkpoint completed ({} triggers, {} with a rejected barrier)", triggers, rejected));
        o.shutdown();
        rep.nontrivial = false;
        return;
    }
    // the cut of the completed checkpoint as the harness can know it: the last barrier each context processed
    let (a_cut, b_cut) = (a_cut.unwrap_or(0), b_cut.unwrap_or(0));
    let in_flight = a_cut.saturating_sub(b_cut);
    rep.log(format!("checkpoint complete after {} triggers ({} with a rejected barrier): c1 had consumed {} inputs at its last barrier, c2 {} forwarded events at its last barrier => {} in flight across the cut", triggers, rejected, a_cut, b_cut, in_flight));
    if in_flight > 0 { rep.probe("event-in-flight-across-the-cut"); }
    if rejected > 0 { rep.probe("checkpoint-completed-after-a-rejected-barrier"); }
    rep.fault("crash-after-completed-checkpoint");
    o.shutdown();
    recover_and_judge(src, store, cfg, a_cut as i64, n, in_flight, (a_cut, b_cut), rep);
    rep.nontrivial = a_cut > 0 && (a_cut as i64) < n;
}

struct W3;
impl World for W3 {
    fn name(&self) -> &'static str {
        "w3-contexts"
    }
    fn props(&self) -> Vec<Prop> {
        let real = vec![
            "ContextOrchestrator::build_with_checkpoint incl. real std::thread spawn and one real current_thread tokio runtime per context",
            "ContextRuntime::run (select loop, drain_and_route_output, barrier handling), EventTypeRouter, CheckpointCoordinator",
            "one real Engine per context (parser, load, process_shared, create/restore checkpoint), MemoryStore, CheckpointManager",
        ];
        vec![
            Prop {
                id: "C26",
                batches: vec![
                    Batch { name: "small-queues", quick: 1_500, thorough: 60_000, faulty: true },
                    Batch { name: "large-queues", quick: 700, thorough: 30_000, faulty: false },
                    Batch { name: "topologies", quick: 1_200, thorough: 50_000, faulty: true },
                    Batch { name: "topologies-large-queues", quick: 800, thorough: 30_000, faulty: false },
                    Batch { name: "topologies-fanout", quick: 500, thorough: 20_000, faulty: false },
                ],
                rule: "one run = a 2-3 context chain Raw -> A(c1) -> B(c2) [-> C(c3)] (stateless stages, last stage optionally a count window) on the real orchestrator with channel capacity 1-8 (control batch: 1000), 10-60 inputs injected singly or in bursts by a non-blocking producer that waits when the ingress queue is full; the tape chooses at every step whether the producer or which runnable context proceeds, and stalls a context for 2-12 steps so queues fill. Oracle: per-stream output sequence and multiset equal to the same program on one engine without contexts; every cross-context forward is traced with whether the target queue had room. Non-trivial = >= 10 inputs and >= 10 outputs; distinct = distinct decoded-trace hash (the decoded trace contains the full schedule).",
                real: real.clone(),
                stub: vec!["the OS scheduler (replaced by turn-taking: one context or the harness runs at a time)", "external producer and output consumer"],
                assumptions: vec!["the orchestrator's own output channel is large and drained after every step, so output-channel overflow is not conflated with the property", "no session windows (their sweep timer would make an idle context runnable)"],
            },
            Prop {
                id: "C27",
                batches: vec![
                    Batch { name: "schedules", quick: 1_200, thorough: 50_000, faulty: true },
                    Batch { name: "lockstep", quick: 300, thorough: 10_000, faulty: true },
                    Batch { name: "rejected-barriers", quick: 4_000, thorough: 120_000, faulty: true },
                ],
                rule: "one run = chain Raw -> A(c1) -> B(c2) where B buffers everything it consumes (its snapshot is the set of consumed cross-context events); 4-30 inputs, barrier injection (trigger_checkpoint) after a tape-chosen number of inputs, tape-chosen schedule of producer and contexts until try_complete_checkpoint reports completion, then crash; recovery = new orchestrator built from the stored checkpoint + replay of exactly the inputs that sat behind the barrier in the ingress queue; a final coordinated snapshot of B is compared with the input set: every event exactly once. The lockstep batch always drains downstream first, so nothing is ever in flight across the cut. Non-trivial = the barrier fell strictly inside the input sequence; distinct = distinct decoded-trace hash.",
                real,
                stub: vec!["the OS scheduler (turn-taking)", "external producer", "the crash (orchestrator shut down, only the MemoryStore survives)"],
                assumptions: vec!["activity of the old contexts after the crash instant is ignored (it cannot reach the store or the new orchestrator)"],
            },
        ]
    }
    fn run(&self, prop: &str, batch: &str, tape: &mut Tape, rep: &mut Report) {
        install_hooks();
        match prop {
            "C26" => run_c26(batch, tape, rep),
            "C27" if batch == "rejected-barriers" => run_c27_rejected(tape, rep),
            "C27" => run_c27(batch, tape, rep),
            _ => panic!("vsim harness: unknown property {}", prop),
        }
    }
}
static WORLD: W3 = W3;
fn main() {
    vsim_core::driver::main(&WORLD)
}
