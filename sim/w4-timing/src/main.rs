//! W4 — timing world: RateLimiter (C30) and ResilientSink/CircuitBreaker/DLQ (C45)
//! on the virtual clock. Real: the repo's RateLimiter, TokenBucket, CircuitBreaker,
//! ResilientSink, DeadLetterQueue (real file). Stub: downstream sink, clients.

use std::collections::BTreeMap;
use std::net::{IpAddr, Ipv4Addr};
use std::sync::{Arc, Mutex};
use std::time::Duration;

use vsim_core::clock;
use vsim_core::exec::Task;
use vsim_core::{Batch, Prop, Report, Tape, World};

vsim_core::interpose!();

struct W4;

fn scratch_dir() -> std::path::PathBuf {
    let base = if std::path::Path::new("/dev/shm").is_dir() { "/dev/shm".into() } else { std::env::temp_dir() };
    let d = base.join(format!("vsim-w4-{}", std::process::id()));
    let _ = std::fs::create_dir_all(&d);
    d
}

// ───────────────────────────── C30 ─────────────────────────────

mod c30 {
    use super::*;
    use varpulis_cluster::rate_limit::{RateLimitConfig, RateLimitResult, RateLimiter};

    fn ip(n: u64) -> IpAddr {
        IpAddr::V4(Ipv4Addr::new(10, 0, 0, n as u8 + 1))
    }

    pub fn run(batch: &str, tape: &mut Tape, rep: &mut Report) {
        let faulty = batch == "clockfaults";
        // swarm configuration
        let rate: u32 = match tape.draw(8) {
            0 => 1,
            1 => 2,
            2 => 5,
            3 => 10,
            4 => 50,
            5 => tape.range(1, 50) as u32,
            6 => if batch == "zero-rate" || faulty { 0 } else { 3 },
            _ => tape.range(1, 4) as u32,
        };
        let rate = if batch == "zero-rate" { 0 } else { rate };
        let burst: u32 = match tape.draw(4) {
            0 => tape.draw(3) as u32,
            1 => tape.range(1, 5) as u32,
            _ => tape.range(0, 20) as u32,
        };
        let max_ips = tape.range(1, 4) as usize;
        let nclients = tape.range(1, 5);
        let nops = tape.range(5, 60);
        let use_ctor = tape.draw(3);
        let mut cfg = match use_ctor {
            0 if burst == rate.saturating_mul(2) => RateLimitConfig::new(rate),
            _ => RateLimitConfig::with_burst(rate, burst),
        };
        cfg.max_tracked_ips = max_ips;
        rep.config = format!("rate={} burst={} max_tracked_ips={} clients={} ops={} batch={}", rate, burst, max_ips, nclients, nops, batch);
        rep.log(format!("config {}", rep.config));
        let limiter = RateLimiter::new(cfg);

        // model of tracking: ip -> last_update (virtual ns)
        let mut tracked: BTreeMap<u64, i64> = BTreeMap::new();
        // per client: current epoch's admission instants
        let mut epochs: BTreeMap<u64, Vec<i64>> = BTreeMap::new();
        let mut finished_epochs: Vec<(u64, Vec<i64>)> = vec![];
        let mut admitted_total = 0u64;
        let mut limited_total = 0u64;

        for step in 0..nops {
            // time passes
            let dt: i64 = match tape.draw(if faulty { 10 } else { 7 }) {
                0 => 0,
                1 => 1,
                2 => tape.range(1, 1_000_000) as i64,
                3 => if rate > 0 { (1_000_000_000i64 / rate as i64).max(1) } else { 1_000_000 },
                4 => if rate > 0 { (1_000_000_000i64 / rate as i64 - 1).max(0) } else { 999_999 },
                5 => tape.range(1, 3_000) as i64 * 1_000_000,
                6 => tape.range(1, 20) as i64 * 1_000_000_000,
                7 => { rep.fault("clock-stall"); 0 }
                8 => { rep.fault("clock-jump-hours"); tape.range(1, 100) as i64 * 3_600_000_000_000 }
                // i64 nanoseconds hold ~292 years; 60 steps x <=400 days stays far below that
                _ => { rep.fault("clock-jump-days"); tape.range(1, 400) as i64 * 86_400_000_000_000 }
            };
            clock::advance_ns(dt);
            let now = clock::mono_ns();

            // occasionally cleanup
            if tape.chance(1, 12) {
                let max_age_ns = match tape.draw(3) { 0 => 1_000_000i64, 1 => 1_000_000_000, _ => 60_000_000_000 };
                vsim_core::exec::block_on_ready(limiter.cleanup(Duration::from_nanos(max_age_ns as u64)));
                let gone: Vec<u64> = tracked.iter().filter(|(_, lu)| !(now - **lu < max_age_ns)).map(|(c, _)| *c).collect();
                for c in gone {
                    tracked.remove(&c);
                    if let Some(e) = epochs.remove(&c) { finished_epochs.push((c, e)); }
                    rep.probe("cleanup-removed-client");
                }
                rep.log(format!("t={} cleanup max_age={}ns tracked={:?}", now - clock::MONO_BASE_NS, max_age_ns, tracked.keys().collect::<Vec<_>>()));
                let real = vsim_core::exec::block_on_ready(limiter.client_count());
                if real != tracked.len() {
                    rep.violate("tracking-model-mismatch", "cleanup", format!("limiter tracks {} clients, tracking model {}", real, tracked.len()));
                    return;
                }
                continue;
            }

            let c = tape.draw(nclients);
            // model eviction
            if !tracked.contains_key(&c) && tracked.len() >= max_ips {
                let min = tracked.values().min().copied();
                if let Some(m) = min {
                    let cands: Vec<u64> = tracked.iter().filter(|(_, lu)| **lu == m).map(|(k, _)| *k).collect();
                    if cands.len() > 1 {
                        // which of the tied buckets is evicted depends on HashMap order: not judged, end the run here
                        rep.not_judged += 1;
                        rep.log("eviction tie between equally old buckets: run ends (not judged)");
                        break;
                    }
                    let v = cands[0];
                    tracked.remove(&v);
                    if let Some(e) = epochs.remove(&v) { finished_epochs.push((v, e)); }
                    rep.fault("eviction");
                    rep.log(format!("t={} evict client {}", now - clock::MONO_BASE_NS, v));
                }
            }
            let res = std::panic::catch_unwind(std::panic::AssertUnwindSafe(|| vsim_core::exec::block_on_ready(limiter.check(ip(c)))));
            rep.ops += 1;
            match res {
                Err(_) => {
                    let sig = if rate == 0 { "rate=0" } else { "rate>0" };
                    rep.violate("limiter-panic", sig, format!("RateLimiter::check panicked at step {} ({})", step, rep.config));
                    return;
                }
                Ok(RateLimitResult::Allowed { remaining, reset_after }) => {
                    admitted_total += 1;
                    tracked.insert(c, now);
                    epochs.entry(c).or_default().push(now);
                    rep.log(format!("t={} c{} ALLOW remaining={} reset_after={:?}", now - clock::MONO_BASE_NS, c, remaining, reset_after));
                }
                Ok(RateLimitResult::Limited { retry_after }) => {
                    limited_total += 1;
                    tracked.insert(c, now);
                    epochs.entry(c).or_default();
                    rep.log(format!("t={} c{} LIMIT retry_after={:?}", now - clock::MONO_BASE_NS, c, retry_after));
                    if retry_after == Duration::MAX || !retry_after.as_secs_f64().is_finite() {
                        rep.violate("retry-after-not-finite", if rate == 0 { "rate=0" } else { "rate>0" }, format!("retry_after={:?}", retry_after));
                    }
                }
            }
            rep.state(vsim_core::rng::mix(&[tracked.len() as u64, (admitted_total.min(7)) << 8 | limited_total.min(7), c]));
            let real = vsim_core::exec::block_on_ready(limiter.client_count());
            if real != tracked.len() {
                rep.violate("tracking-model-mismatch", "check", format!("limiter tracks {} clients, tracking model {}", real, tracked.len()));
                return;
            }
        }
        for (c, e) in epochs { finished_epochs.push((c, e)); }
        // the bound, over every pair of admissions inside one tracking epoch
        for (c, adm) in &finished_epochs {
            for i in 0..adm.len() {
                for j in i..adm.len() {
                    let n = (j - i + 1) as f64;
                    let t = (adm[j] - adm[i]) as f64 / 1e9;
                    let bound = burst as f64 + rate as f64 * t + 1e-6;
                    if n > bound {
                        rep.violate("admitted-more-than-burst-plus-rate-T", "-", format!("client {} admitted {} in {:.9}s, bound {:.6} ({})", c, n, t, bound, rep.config));
                        return;
                    }
                }
            }
        }
        if limited_total > 0 { rep.probe("limited-at-least-once"); }
        if admitted_total > burst as u64 { rep.probe("admitted-beyond-initial-burst"); }
        rep.nontrivial = limited_total > 0 && admitted_total > 0;
    }
}

// ───────────────────────────── C45 ─────────────────────────────

mod c45 {
    use super::*;
    use async_trait::async_trait;
    use std::future::Future;
    use std::pin::Pin;
    use std::task::{Context, Poll};
    use varpulis_runtime::circuit_breaker::{CircuitBreaker, CircuitBreakerConfig, State};
    use varpulis_runtime::dead_letter::DeadLetterQueue;
    use varpulis_runtime::event::Event;
    use varpulis_runtime::sink::{ResilientSink, Sink};

    #[derive(Clone, Debug)]
    enum Outcome {
        Ok,
        Err(String),
        /// batch only: first k delivered, then error
        Partial(usize, String),
    }

    #[derive(Default)]
    struct MockState {
        next_call: u64,
        /// call id -> (event ids, outcome once decided)
        calls: BTreeMap<u64, (Vec<i64>, Option<Outcome>)>,
        delivered: Vec<i64>,
    }

    struct MockSink {
        st: Arc<Mutex<MockState>>,
    }

    struct CallFuture {
        st: Arc<Mutex<MockState>>,
        id: u64,
    }
    impl Future for CallFuture {
        type Output = anyhow::Result<()>;
        fn poll(self: Pin<&mut Self>, _cx: &mut Context<'_>) -> Poll<Self::Output> {
            let mut st = self.st.lock().unwrap();
            let (ids, out) = st.calls.get(&self.id).cloned().unwrap();
            match out {
                None => Poll::Pending,
                Some(Outcome::Ok) => {
                    st.delivered.extend(ids);
                    st.calls.remove(&self.id);
                    Poll::Ready(Ok(()))
                }
                Some(Outcome::Err(e)) => {
                    st.calls.remove(&self.id);
                    Poll::Ready(Err(anyhow::anyhow!(e)))
                }
                Some(Outcome::Partial(k, e)) => {
                    st.delivered.extend(ids.into_iter().take(k));
                    st.calls.remove(&self.id);
                    Poll::Ready(Err(anyhow::anyhow!(e)))
                }
            }
        }
    }

    fn ev_id(e: &Event) -> i64 {
        e.get_int("id").unwrap_or(-1)
    }

    #[async_trait]
    impl Sink for MockSink {
        fn name(&self) -> &str {
            "mock-downstream"
        }
        async fn send(&self, event: &Event) -> anyhow::Result<()> {
            let id = {
                let mut st = self.st.lock().unwrap();
                let id = st.next_call;
                st.next_call += 1;
                st.calls.insert(id, (vec![ev_id(event)], None));
                id
            };
            CallFuture { st: self.st.clone(), id }.await
        }
        async fn send_batch(&self, events: &[Arc<Event>]) -> anyhow::Result<()> {
            let id = {
                let mut st = self.st.lock().unwrap();
                let id = st.next_call;
                st.next_call += 1;
                st.calls.insert(id, (events.iter().map(|e| ev_id(e)).collect(), None));
                id
            };
            CallFuture { st: self.st.clone(), id }.await
        }
        async fn flush(&self) -> anyhow::Result<()> {
            Ok(())
        }
        async fn close(&self) -> anyhow::Result<()> {
            Ok(())
        }
    }

    #[derive(Clone, Copy, PartialEq, Debug)]
    enum M {
        Closed,
        Open,
        HalfOpen,
    }

    struct Op {
        task: Task<anyhow::Result<()>>,
        ids: Vec<i64>,
        call: Option<u64>, // mock call id if admitted
        admitted_in: M,
        open_gen: u64,
    }

    pub fn run(batch: &str, tape: &mut Tape, rep: &mut Report) {
        let senders = if batch == "sequential" { 1 } else { tape.range(2, 3) as usize };
        let threshold = tape.range(1, 4) as u32;
        let timeout_s = *tape.pick(&[1u64, 2, 5, 30]);
        let timeout_ns = timeout_s as i64 * 1_000_000_000;
        let nops = tape.range(3, 12);
        let fail_bias = tape.range(1, 4); // out of 5
        rep.config = format!("senders={} threshold={} reset_timeout={}s ops={} fail_bias={}/5 batch={}", senders, threshold, timeout_s, nops, fail_bias, batch);
        rep.log(format!("config {}", rep.config));

        let dir = scratch_dir();
        let path = dir.join("dlq.jsonl");
        let _ = std::fs::remove_file(&path);
        let dlq = Arc::new(DeadLetterQueue::open(&path).expect("open dlq"));
        let st = Arc::new(Mutex::new(MockState::default()));
        let mock: Arc<dyn Sink> = Arc::new(MockSink { st: st.clone() });
        let cb = Arc::new(CircuitBreaker::new(CircuitBreakerConfig { failure_threshold: threshold, reset_timeout: Duration::from_nanos(timeout_ns as u64) }));
        let sink = Arc::new(ResilientSink::new(mock, cb.clone(), Some(dlq.clone())));

        // reference automaton
        let mut m = M::Closed;
        let mut consec = 0u32;
        let mut opened_at = 0i64;
        let mut last_failure = 0i64;
        let mut open_gen = 0u64; // increments every time the model opens
        let mut probe: Option<usize> = None; // slot index of the probe in flight
        let mut judging = true; // breaker rules judged (conservation is always judged)

        let mut slots: Vec<Option<Op>> = (0..senders).map(|_| None).collect();
        let mut next_id = 0i64;
        let mut handed: Vec<i64> = vec![];
        let mut started = 0u64;
        let mut steps = 0u64;

        loop {
            steps += 1;
            if steps > 400 { break; }
            let idle: Vec<usize> = (0..senders).filter(|i| slots[*i].is_none()).collect();
            let pending: Vec<usize> = (0..senders).filter(|i| slots[*i].is_some()).collect();
            let can_start = started < nops && !idle.is_empty();
            if !can_start && pending.is_empty() { break; }
            // choose: 0 start, 1 complete, 2 advance time
            let mut choices = vec![];
            if can_start { choices.push(0); choices.push(0); }
            if !pending.is_empty() { choices.push(1); choices.push(1); }
            choices.push(2);
            let ch = *tape.pick(&choices);
            let now = clock::mono_ns();
            let t = |n: i64| n - clock::MONO_BASE_NS;
            match ch {
                2 => {
                    let dt: i64 = match tape.draw(7) {
                        0 => 1_000_000,
                        1 => timeout_ns - 1,
                        2 => timeout_ns,
                        3 => timeout_ns + 1,
                        4 => tape.range(1, (2 * timeout_s).max(2)) as i64 * 500_000_000,
                        5 => if m == M::Open { (last_failure + timeout_ns - now).max(0) } else { 1 },
                        _ => if m == M::Open { (opened_at + timeout_ns - now - 1).max(0) } else { 1_000 },
                    };
                    clock::advance_ns(dt);
                    rep.log(format!("t={} advance +{}ns", t(now), dt));
                }
                0 => {
                    let s = *tape.pick(&idle);
                    let is_batch = tape.chance(1, 3);
                    let n = if is_batch { tape.range(1, 3) as usize } else { 1 };
                    let ids: Vec<i64> = (0..n).map(|_| { next_id += 1; next_id }).collect();
                    handed.extend(ids.iter().copied());
                    started += 1;
                    rep.ops += 1;
                    let sink2 = sink.clone();
                    let evs: Vec<Arc<Event>> = ids.iter().map(|i| Arc::new(Event::new("E").with_field("id", *i).with_field("payload", format!("p{}", i)))).collect();
                    let calls_before = st.lock().unwrap().next_call;
                    let mut task = if is_batch {
                        Task::new(async move { sink2.send_batch(&evs).await })
                    } else {
                        Task::new(async move { sink2.send(&evs[0]).await })
                    };
                    let finished = task.poll();
                    let calls_after = st.lock().unwrap().next_call;
                    let admitted = calls_after > calls_before;
                    rep.log(format!("t={} sender{} start {} ids={:?} -> {}", t(now), s, if is_batch { "batch" } else { "send" }, ids, if admitted { "admitted" } else { "rejected" }));
                    if !admitted && !finished {
                        rep.violate("harness-mock", "-", "send neither reached the mock nor finished");
                        return;
                    }
                    // judge admission against the reference automaton
                    if judging {
                        match m {
                            M::Closed => {
                                if !admitted { rep.violate("rejected-while-closed", "-", format!("consecutive failures {} < threshold {}", consec, threshold)); judging = false; }
                            }
                            M::Open => {
                                let since_open = now - opened_at;
                                let since_fail = now - last_failure;
                                if admitted && since_open < timeout_ns {
                                    rep.violate("admitted-while-open", "-", format!("admitted {}ns after opening, reset_timeout {}ns", since_open, timeout_ns));
                                    judging = false;
                                } else if !admitted && since_fail > timeout_ns {
                                    // exactly == reset_timeout is not judged: "until the timeout has passed" leaves the boundary open
                                    rep.violate("rejected-after-reset-timeout", "-", format!("rejected {}ns after the last failure, reset_timeout {}ns", since_fail, timeout_ns));
                                    judging = false;
                                } else if admitted {
                                    if since_fail <= timeout_ns { rep.not_judged += 1; }
                                    m = M::HalfOpen;
                                    probe = Some(s);
                                    rep.probe("half-open-probe-admitted");
                                } else if since_open >= timeout_ns {
                                    rep.not_judged += 1; // between opened+timeout and last_failure+timeout: readings differ
                                }
                            }
                            M::HalfOpen => {
                                if probe.is_some() && admitted {
                                    rep.probe("half-open-second-sender-arrived");
                                    rep.violate("second-probe-admitted-while-half-open", "allow_request:HalfOpen", format!("sender{} admitted while sender{}'s probe is still in flight", s, probe.unwrap()));
                                    judging = false;
                                } else if probe.is_some() && !admitted {
                                    rep.probe("half-open-second-sender-arrived");
                                }
                            }
                        }
                    }
                    if finished {
                        // rejected (or completed synchronously — impossible with this mock)
                        let r = task.result.take().unwrap();
                        if admitted {
                            rep.violate("harness-mock", "-", "admitted send finished without a downstream outcome");
                            return;
                        }
                        if r.is_ok() {
                            rep.violate("rejected-send-returned-ok", "-", "breaker rejected the request but send returned Ok");
                        }
                    } else {
                        let stale_open = m == M::Open; // cannot be: admitted in Open moves the model to HalfOpen
                        let _ = stale_open;
                        slots[s] = Some(Op { task, ids, call: Some(calls_before), admitted_in: m, open_gen });
                    }
                }
                _ => {
                    let s = *tape.pick(&pending);
                    let mut op = slots[s].take().unwrap();
                    let n = op.ids.len();
                    let outcome = if tape.draw(5) < fail_bias {
                        if n > 1 && tape.chance(1, 2) { Outcome::Partial(tape.range(0, n as u64 - 1) as usize, format!("downstream error #{}", steps)) } else { Outcome::Err(format!("downstream error #{}", steps)) }
                    } else {
                        Outcome::Ok
                    };
                    let ok = matches!(outcome, Outcome::Ok);
                    if !ok { rep.fault("downstream-failure"); }
                    if pending.len() > 1 { rep.fault("slow-downstream-overlap"); }
                    st.lock().unwrap().calls.get_mut(&op.call.unwrap()).unwrap().1 = Some(outcome.clone());
                    let fin = op.task.poll();
                    if !fin {
                        rep.violate("harness-mock", "-", "send did not finish after its downstream call completed");
                        return;
                    }
                    let r = op.task.result.take().unwrap();
                    rep.log(format!("t={} sender{} complete ids={:?} outcome={:?} -> {}", t(now), s, op.ids, outcome, if r.is_ok() { "Ok" } else { "Err" }));
                    if r.is_ok() != ok {
                        rep.violate("result-mismatch", "-", format!("downstream {:?} but send returned {}", outcome, if r.is_ok() { "Ok" } else { "Err" }));
                    }
                    // advance the reference automaton in completion order
                    if judging {
                        let is_probe = m == M::HalfOpen && probe == Some(s);
                        let stale = !is_probe && (m != M::Closed) && (op.open_gen < open_gen || op.admitted_in == M::Closed);
                        if m == M::HalfOpen && !is_probe {
                            // an operation admitted before the breaker opened completes during half-open:
                            // the contract speaks only of the probe's completion — stop judging this run
                            rep.not_judged += 1;
                            judging = false;
                        } else if m == M::Open {
                            let _ = stale;
                            if !ok { last_failure = now; }
                        } else if is_probe {
                            probe = None;
                            if ok { m = M::Closed; consec = 0; rep.probe("probe-success-closes"); } else { m = M::Open; opened_at = now; last_failure = now; open_gen += 1; rep.probe("probe-failure-reopens"); }
                        } else {
                            // Closed
                            if ok { consec = 0; } else {
                                consec += 1;
                                last_failure = now;
                                if consec >= threshold { m = M::Open; opened_at = now; open_gen += 1; rep.probe("opened-at-threshold"); }
                            }
                        }
                        if judging {
                            let real = cb.state();
                            let want = match m { M::Closed => State::Closed, M::Open => State::Open, M::HalfOpen => State::HalfOpen };
                            // Open vs HalfOpen is only observable at the next request; compare Closed-ness
                            if (real == State::Closed) != (want == State::Closed) {
                                let cls = if want == State::Closed { "breaker-open-but-should-be-closed" } else { "breaker-closed-but-should-be-open" };
                                rep.violate(cls, "-", format!("after completion: breaker {:?}, contract {:?} (consecutive failures {}, threshold {})", real, want, consec, threshold));
                                judging = false;
                            }
                        }
                    }
                }
            }
            let inflight = slots.iter().filter(|s| s.is_some()).count() as u64;
            rep.state(vsim_core::rng::mix(&[m as u64, inflight, consec as u64, judging as u64]));
            if m == M::HalfOpen && inflight >= 2 { rep.probe("half-open-with-2-in-flight"); }
        }
        // drain: complete whatever is still pending, successfully
        for s in 0..senders {
            if let Some(mut op) = slots[s].take() {
                st.lock().unwrap().calls.get_mut(&op.call.unwrap()).unwrap().1 = Some(Outcome::Ok);
                op.task.poll();
            }
        }
        // conservation
        let delivered: Vec<i64> = st.lock().unwrap().delivered.clone();
        let text = std::fs::read_to_string(&path).unwrap_or_default();
        let mut dlq_ids: BTreeMap<i64, (String, String)> = BTreeMap::new();
        for (ln, line) in text.lines().enumerate() {
            match serde_json::from_str::<serde_json::Value>(line) {
                Ok(v) => {
                    let conn = v["connector"].as_str().unwrap_or("").to_string();
                    let err = v["error"].as_str().unwrap_or("").to_string();
                    let id = find_id(&v["event"]);
                    match id {
                        Some(i) => { dlq_ids.insert(i, (conn, err)); }
                        None => rep.violate("dlq-entry-without-event", "-", format!("line {}: {}", ln, line)),
                    }
                }
                Err(e) => rep.violate("dlq-line-unreadable", "-", format!("line {}: {} ({})", ln, line, e)),
            }
        }
        for id in &handed {
            let d = delivered.contains(id);
            match dlq_ids.get(id) {
                None if !d => rep.violate("event-lost", "-", format!("event id={} neither delivered nor in the DLQ", id)),
                Some((conn, err)) => {
                    if conn != "mock-downstream" { rep.violate("dlq-entry-wrong-sink", "-", format!("id={} connector={:?}", id, conn)); }
                    if err.is_empty() { rep.violate("dlq-entry-without-error", "-", format!("id={}", id)); }
                }
                _ => {}
            }
        }
        if dlq.count() as usize != text.lines().count() {
            rep.violate("dlq-count-mismatch", "-", format!("count()={} lines={}", dlq.count(), text.lines().count()));
        }
        let _ = std::fs::remove_file(&path);
        let _ = std::fs::remove_dir(&dir); // leave no per-process scratch directory behind
        rep.nontrivial = rep.faults.get("downstream-failure").copied().unwrap_or(0) > 0 && !dlq_ids.is_empty() && !delivered.is_empty();
    }

    fn find_id(v: &serde_json::Value) -> Option<i64> {
        // the event serialisation is the repo's; find an integer field named "id" anywhere inside
        match v {
            serde_json::Value::Object(m) => {
                if let Some(i) = m.get("id") {
                    if let Some(n) = i.as_i64() { return Some(n); }
                    if let Some(n) = find_id(i) { return Some(n); }
                }
                for (_, x) in m { if let Some(n) = find_id(x) { return Some(n); } }
                None
            }
            serde_json::Value::Array(a) => a.iter().find_map(find_id),
            serde_json::Value::Number(n) => n.as_i64(),
            _ => None,
        }
    }
}

impl World for W4 {
    fn name(&self) -> &'static str {
        "w4-timing"
    }
    fn props(&self) -> Vec<Prop> {
        vec![
            Prop {
                id: "C30",
                batches: vec![
                    Batch { name: "plain", quick: 40_000, thorough: 1_500_000, faulty: false },
                    Batch { name: "clockfaults", quick: 40_000, thorough: 1_500_000, faulty: true },
                    Batch { name: "zero-rate", quick: 5_000, thorough: 100_000, faulty: false },
                ],
                rule: "one run = one RateLimiter config (rate 0-50, burst 0-20, max_tracked_ips 1-4) and 5-60 tape-drawn request/cleanup steps from 1-5 clients on the virtual monotonic clock (dt in {0,1ns,1/rate,1/rate-1ns,ms,s}; in the clockfaults batch also stalls and jumps of hours/years). Non-trivial = at least one request admitted AND at least one limited; distinct = distinct decoded-trace hash.",
                real: vec!["varpulis_cluster::rate_limit::{RateLimiter,TokenBucket,RateLimitConfig}", "std::time::Instant via link-level clock_gettime seam", "tokio::sync::RwLock"],
                stub: vec!["clients (request instants drawn from the tape)", "warp filter layer not exercised"],
                assumptions: vec!["tracking epochs are reconstructed by a model of insertion/eviction/cleanup that is cross-checked against client_count() after every step; runs with an eviction tie between equally old buckets end there (not judged)"],
            },
            Prop {
                id: "C45",
                batches: vec![
                    Batch { name: "sequential", quick: 30_000, thorough: 1_000_000, faulty: true },
                    Batch { name: "concurrent", quick: 30_000, thorough: 1_000_000, faulty: true },
                ],
                rule: "one run = one ResilientSink (threshold 1-4, reset timeout 1-30 s virtual) over a mock downstream and a real DLQ file; 3-12 send/send_batch calls from 1 (sequential) or 2-3 (concurrent) sender tasks polled by a manual executor; the tape chooses start/complete/advance-time steps, each downstream outcome (ok/error/partial batch) and the time advances (incl. exactly reset_timeout +-1ns). Non-trivial = at least one downstream failure AND at least one DLQ entry AND at least one delivery; distinct = distinct decoded-trace hash.",
                real: vec!["varpulis_runtime::sink::ResilientSink", "varpulis_runtime::circuit_breaker::CircuitBreaker", "varpulis_runtime::dead_letter::DeadLetterQueue (real file on tmpfs)", "Instant/chrono via the link-level clock seam"],
                stub: vec!["downstream sink (mock whose completion the simulator decides)", "sender tasks (manual executor)"],
                assumptions: vec!["DLQ write errors (disk full) are outside the property's quantifier and not injected", "when an operation admitted before the breaker opened completes during half-open the run stops judging breaker rules (contract silent); counted in oracle_not_judged"],
            },
        ]
    }
    fn run(&self, prop: &str, batch: &str, tape: &mut Tape, rep: &mut Report) {
        match prop {
            "C30" => c30::run(batch, tape, rep),
            "C45" => c45::run(batch, tape, rep),
            _ => panic!("vsim harness: unknown property {}", prop),
        }
    }
}

static WORLD: W4 = W4;

fn main() {
    vsim_core::driver::main(&WORLD)
}
