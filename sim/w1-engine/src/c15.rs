//! C15 — joins correlate exactly the same-key events that are within the window.
//! Multi-source delivery with per-source delay/disorder; reference model written from
//! the property statement; ambiguous boundaries are not judged.

use crate::eng::*;
use chrono::Duration;
use rustc_hash::FxHashMap;
use varpulis_runtime::event::Event;
use varpulis_runtime::join::JoinBuffer;
use vsim_core::{Report, Tape};

const SRC: [&str; 3] = ["A", "B", "C"];
const ETY: [&str; 3] = ["EA", "EB", "EC"];
const KEYS: [&str; 3] = ["x", "y", "z"];

#[derive(Clone, Debug)]
struct Rec {
    seq: i64,
    src: usize,
    ts_ms: i64,
    key: &'static str,
    /// displaced by the per-key cap according to the model (the code may still hold it)
    cap_displaced: bool,
}

enum Drv {
    Buf(JoinBuffer),
    Eng(Eng),
}

impl Drv {
    /// returns the joined output as per-source seqs, if any
    fn add(&mut self, r: &Rec, nsrc: usize) -> Vec<Vec<Option<i64>>> {
        match self {
            Drv::Buf(jb) => {
                let ev = Event::new_at(ETY[r.src], ts_ms(r.ts_ms)).with_field("seq", r.seq).with_field("k", r.key);
                jb.add_event(SRC[r.src], ev).into_iter().map(|e| (0..nsrc).map(|s| e.get_int(&format!("{}.seq", SRC[s]))).collect()).collect()
            }
            Drv::Eng(en) => {
                let ev = Event::new_at(ETY[r.src], ts_ms(r.ts_ms)).with_field("seq", r.seq).with_field("k", r.key);
                let out = en.process(ev).expect("engine.process");
                out.iter().map(|e| (0..nsrc).map(|s| e.get_int(&format!("s{}", SRC[s].to_lowercase()))).collect()).collect()
            }
        }
    }
}

pub fn run(batch: &str, tape: &mut Tape, rep: &mut Report) {
    let disorder = batch == "disorder";
    let nsrc = tape.range(2, 3) as usize;
    let window_s = tape.range(1, 5) as i64;
    let w = window_s * 1000;
    let nkeys = tape.range(1, 3);
    let level_engine = tape.chance(1, 2);
    let cap = if level_engine { 1000 } else { tape.range(2, 4) as usize };
    let n = tape.range(4, 40);
    rep.config = format!("level={} sources={} window={}s keys={} per_key_cap={} disorder={} n={}", if level_engine { "engine" } else { "struct" }, nsrc, window_s, nkeys, cap, disorder, n);
    rep.log(format!("config {}", rep.config));

    let mut drv = if level_engine {
        let mut src = String::new();
        for s in 0..nsrc {
            src.push_str(&format!("stream {} = {}\n", SRC[s], ETY[s]));
        }
        let on = if nsrc == 2 { "A.k == B.k".to_string() } else { "A.k == B.k and B.k == C.k".to_string() };
        let emit: Vec<String> = (0..nsrc).map(|s| format!("s{}: {}.seq", SRC[s].to_lowercase(), SRC[s])).collect();
        src.push_str(&format!("stream J = join({})\n  .on({})\n  .window({}s)\n  .emit(k: A.k, {})\n", SRC[..nsrc].join(", "), on, window_s, emit.join(", ")));
        Drv::Eng(Eng::new(&src).unwrap_or_else(|e| panic!("vsim harness: program rejected: {} :: {}", e, src)))
    } else {
        let mut keys = FxHashMap::default();
        for s in 0..nsrc {
            keys.insert(SRC[s].to_string(), "k".to_string());
        }
        Drv::Buf(JoinBuffer::new(SRC[..nsrc].iter().map(|s| s.to_string()).collect(), keys, Duration::seconds(window_s)).with_max_events(cap))
    };

    // per-source event-time clocks; delivery may lag (disorder) so arrival order != timestamp order
    let mut clk = vec![0i64; nsrc];
    let mut hist: Vec<Rec> = vec![];
    let mut outputs = 0u64;
    let mut judged_must = 0u64;
    for seq in 0..n as i64 {
        let s = tape.draw(nsrc as u64) as usize;
        clk[s] += *tape.pick(&[0i64, 250, 500, 500, 1000, 1000, 2000, 3000, 6000]);
        let mut ts = clk[s];
        if disorder {
            if tape.chance(1, 4) {
                ts = (ts - tape.range(1, 12) as i64 * 500).max(0);
                rep.fault("straggler-delivered-late");
            }
        } else {
            // in-order merged stream
            let mx = hist.iter().map(|h| h.ts_ms).max().unwrap_or(0);
            ts = ts.max(mx);
            clk[s] = ts;
        }
        let r = Rec { seq, src: s, ts_ms: ts, key: KEYS[tape.draw(nkeys) as usize], cap_displaced: false };
        // model of the per-key cap: when `cap` events of (source,key) are held, the oldest arrival is displaced
        let same: Vec<usize> = hist.iter().enumerate().filter(|(_, h)| h.src == s && h.key == r.key && !h.cap_displaced).map(|(i, _)| i).collect();
        if same.len() >= cap {
            for i in same.iter().take(same.len() + 1 - cap) {
                hist[*i].cap_displaced = true;
                rep.probe("per-key-cap-reached");
            }
        }
        hist.push(r.clone());
        let got = drv.add(&r, nsrc);
        rep.ops += 1;
        rep.log(format!("arrive seq={} src={} ts={} k={} -> {:?}", seq, SRC[s], ts, r.key, got));
        if got.len() > 1 {
            rep.violate("several-join-outputs-for-one-arrival", "-", format!("{:?}", got));
            continue;
        }
        let got = got.into_iter().next();
        if got.is_some() {
            outputs += 1;
        }

        // ---- reference model for this arrival ----
        let t = ts;
        // a stored event may have been expired by design if some arrival after it, stamped more than `window`
        // later than it, ran the garbage collector relative to its own timestamp (expiry by progress)
        let expirable = |p: &Rec| hist.iter().any(|a| a.seq > p.seq && a.seq <= seq && a.ts_ms - w > p.ts_ms);
        let mut must_all = true; // every source certainly holds a partner on which every reading agrees
        let mut may_all = true; // every source possibly holds a partner under at least one reading
        let mut certain_last: Vec<Option<i64>> = vec![None; nsrc];
        let mut possible: Vec<Vec<i64>> = vec![vec![]; nsrc];
        let mut only_expirable = false;
        for q in 0..nsrc {
            let cands: Vec<&Rec> = hist.iter().filter(|h| h.src == q && h.key == r.key).collect();
            let strong: Vec<&&Rec> = cands.iter().filter(|h| !h.cap_displaced && h.ts_ms > t - w && h.ts_ms < t + w).collect();
            let certain: Vec<&&&Rec> = strong.iter().filter(|h| !expirable(h)).collect();
            possible[q] = cands.iter().filter(|h| h.ts_ms >= t - w).map(|h| h.seq).collect();
            certain_last[q] = certain.iter().map(|h| h.seq).max();
            if certain.is_empty() {
                must_all = false;
                if !strong.is_empty() {
                    only_expirable = true;
                }
            }
            if possible[q].is_empty() {
                may_all = false;
            }
        }
        match (&got, must_all, may_all) {
            (None, true, _) => {
                let sig = if disorder { "partner-never-outside-window;disorder" } else { "partner-never-outside-window;in-order" };
                rep.violate("join-output-missing", sig, format!("arrival seq={} src={} ts={} k={}: every source holds a same-key event strictly inside +-{}s that no arrival could have expired, but no output was produced", seq, SRC[s], t, r.key, window_s));
            }
            (Some(g), _, false) => {
                rep.violate("join-output-without-partner", "-", format!("arrival seq={} ts={} k={}: output {:?} although some source has no same-key event with ts >= {}", seq, t, r.key, g, t - w));
            }
            (Some(g), _, _) => {
                if must_all {
                    judged_must += 1;
                }
                for q in 0..nsrc {
                    match g[q] {
                        None => rep.violate("join-output-missing-field", "-", format!("arrival seq={}: output has no field for source {}", seq, SRC[q])),
                        Some(x) => {
                            if !possible[q].contains(&x) {
                                let why = match hist.iter().find(|h| h.seq == x) {
                                    Some(h) if h.src != q || h.key != r.key => "wrong-source-or-key",
                                    Some(_) => "stale-partner",
                                    None => "unknown-event",
                                };
                                rep.violate("join-output-wrong-partner", why, format!("arrival seq={} ts={} k={}: source {} contributed seq={}, which is not a same-key event of that source with ts >= {}", seq, t, r.key, SRC[q], x, t - w));
                            } else if let Some(c) = certain_last[q] {
                                if x < c {
                                    rep.violate("join-output-wrong-partner", "not-most-recent", format!("arrival seq={} ts={} k={}: source {} contributed seq={} but seq={} arrived later, is inside the window and cannot have expired", seq, t, r.key, SRC[q], x, c));
                                }
                            } else {
                                rep.not_judged += 1;
                            }
                        }
                    }
                }
            }
            (None, false, _) => {
                if only_expirable {
                    rep.probe("partner-expired-relative-to-newer-arrival");
                }
                if may_all {
                    rep.not_judged += 1;
                }
            }
        }
    }
    rep.state(vsim_core::rng::mix(&[outputs, nsrc as u64, nkeys]));
    rep.nontrivial = outputs >= 2 && judged_must >= 1;
}
