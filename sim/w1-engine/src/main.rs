//! W1 — event-time engine world (C12, C13, C15, C19, C23, C24).
use vsim_core::{Batch, Prop, Report, Tape, World};
vsim_core::interpose!();

mod c12;
mod c15;
mod c19;
mod c23;
mod c24;
pub mod eng;
mod probe;

struct W1;

const REAL: [&str; 4] = [
    "varpulis_parser::parse + varpulis_runtime::engine::Engine (load, process, advance_external_watermark, flush_expired_sessions, create_checkpoint)",
    "varpulis_runtime::window::* (public window structs driven directly)",
    "chrono::Utc::now via the link-level clock seam (virtual wall clock)",
    "engine-private partitioned count windows (through the pipeline)",
];

impl World for W1 {
    fn name(&self) -> &'static str {
        "w1-engine"
    }
    fn props(&self) -> Vec<Prop> {
        vec![
            Prop {
                id: "C12",
                batches: vec![
                    Batch { name: "inorder-plain", quick: 20_000, thorough: 600_000, faulty: false },
                    Batch { name: "inorder-watermarks", quick: 20_000, thorough: 600_000, faulty: true },
                    Batch { name: "disorder", quick: 30_000, thorough: 900_000, faulty: true },
                ],
                rule: "one run = one window (tumbling 1-5s / count 1-5 / session 1-5s; plain or partitioned over 1-3 keys; public window struct or real Engine pipeline) fed 3-40 events from 1-3 simulated sources with their own event-time clocks on a 500 ms grid (ties and exact-boundary instants frequent); the tape interleaves watermark advances (before/at/after the newest timestamp), wall-clock session sweeps incl. wall-clock jumps, and (disorder batch) stragglers delivered after newer events. Oracle over the recorded history: exactly-once conservation incl. the final buffer, arrival order within and across windows per partition, count windows close with exactly N, and for in-order runs without late arrivals the tumbling end bound and the session gap bound. Non-trivial = >= 2 windows closed (and a watermark advance fired when watermarks are enabled); distinct = distinct decoded-trace hash.",
                real: REAL.to_vec(),
                stub: vec!["event sources and the delivery order between them (simulated)", "output consumer"],
                assumptions: vec!["window boundaries of engine-level runs are recovered from which events one call emitted (one closed window per partition per call)"],
            },
            Prop {
                id: "C13",
                batches: vec![Batch { name: "inorder", quick: 40_000, thorough: 1_500_000, faulty: false }],
                rule: "one run = one sliding window (time: size 1-5s, slide 1..size; count: size 1-5, slide 1..size; plain or partitioned; public struct or Engine pipeline) fed 3-40 in-order events on a 500 ms grid with ties; a time-indexed reference model per partition predicts every emission instant and its exact contents. No fault or schedule is involved (the property quantifies over in-order single streams); the simulator contributes the discrete-event sources only. Non-trivial = >= 3 emissions; distinct = distinct decoded-trace hash.",
                real: REAL.to_vec(),
                stub: vec!["event source"],
                assumptions: vec!["slide <= size", "for time-sliding windows the first emission and instants exactly equal to last_emit+slide or trigger-size are not judged (statement leaves the boundary open)"],
            },
            Prop {
                id: "C15",
                batches: vec![
                    Batch { name: "inorder", quick: 20_000, thorough: 600_000, faulty: false },
                    Batch { name: "disorder", quick: 40_000, thorough: 1_200_000, faulty: true },
                ],
                rule: "one run = one 2- or 3-way join (window 1-5s, 1-3 key values; JoinBuffer driven directly with per-key cap 2-4, or the real Engine pipeline join(A,B[,C]).on(..).window(..)) fed 4-40 events from per-source event-time clocks on a 250/500 ms grid; in the disorder batch stragglers are delivered after newer-stamped events (arrival order != timestamp order) so the expiry scan and the periodic garbage collector see unsorted buffers. Reference model from the property statement, evaluated at every arrival: output must exist when every source holds a same-key event strictly inside +-window that could not have expired; must not exist when some source holds none with ts >= t-window; each contributed partner must be the most recently arrived eligible one when all readings agree. Non-trivial = >= 2 joined outputs and >= 1 arrival judged under the must-exist rule; distinct = distinct decoded-trace hash.",
                real: vec!["varpulis_runtime::join::JoinBuffer (add_event/try_correlate/cleanup_expired)", "Engine pipeline for join programs (parser, router, join op, emit)"],
                stub: vec!["event sources and their delivery order (simulated)"],
                assumptions: vec!["partners exactly at +-window, partners stamped later than t+window, partners displaced by the per-key cap, and partners older than the window relative to some newer-stamped earlier arrival (expiry by progress) are not judged"],
            },
            Prop {
                id: "C24",
                batches: vec![
                    Batch { name: "tracker", quick: 30_000, thorough: 900_000, faulty: true },
                    Batch { name: "engine-gate", quick: 20_000, thorough: 600_000, faulty: true },
                ],
                rule: "one run = 2-3 sources with their own event-time clocks, out-of-order bounds 0-1.5s and allowed lateness 0-1.5s, 4-40 deliveries with stragglers delivered up to 6s late, idle sources that first speak late, and (tracker batch) external watermark announcements behind/ahead of the source; either the PerSourceWatermarkTracker driven directly or the real Engine with one .watermark().allowed_lateness() stream per source. After every delivery: no source watermark decreased, effective watermark == min over sources that have one (read from the real tracker via its checkpoint), and an event that produced no output was below the effective watermark by more than its consuming stream's allowed lateness. Non-trivial = >= 2 sources with a watermark (engine batch: also >= 1 dropped and >= 2 processed events); distinct = distinct decoded-trace hash.",
                real: vec!["varpulis_runtime::watermark::PerSourceWatermarkTracker", "Engine late-data gate in process_inner, .watermark()/.allowed_lateness() compilation"],
                stub: vec!["event sources and their delivery order (simulated)"],
                assumptions: vec!["tracker state is observed through its checkpoint (millisecond precision; timestamps are on a 500 ms grid)", "every stream has an allowed_lateness, so 'consuming stream without a lateness setting' does not arise; the late side output cannot be configured from VPL, so 'diverted' is judged as 'not processed'"],
            },
            Prop {
                id: "C19",
                batches: vec![
                    Batch { name: "windows", quick: 5_000, thorough: 300_000, faulty: true },
                    Batch { name: "sequences", quick: 5_000, thorough: 300_000, faulty: true },
                    Batch { name: "joins-distinct-limit", quick: 3_000, thorough: 150_000, faulty: true },
                    Batch { name: "watermarks", quick: 3_000, thorough: 150_000, faulty: true },
                    Batch { name: "sweep-all-cuts", quick: 300, thorough: 30_000, faulty: true },
                    Batch { name: "named-patterns", quick: 4_000, thorough: 200_000, faulty: true },
                    Batch { name: "variables", quick: 1_500, thorough: 60_000, faulty: true },
                    Batch { name: "sweep-all-cuts-patterns-variables", quick: 200, thorough: 20_000, faulty: true },
                    Batch { name: "distinct-lru-eviction", quick: 16, thorough: 400, faulty: true },
                ],
                rule: "one run = one generated program with a single stateful feature (window of every kind plain/partitioned with aggregate or direct emit; sequence with 2-3 steps, optional all/not/within/key predicate; 2-way join; distinct; limit; watermark+lateness with optional window), 4-30 events (ms-aligned or sub-millisecond timestamps; event-time disorder and watermark advances for watermark programs) and 1-3 tape-chosen crash points (sweep batch: every cut point of the history, one at a time). Crash = force_checkpoint through the real CheckpointManager/codec into a MemoryStore or FileStore, drop the engine, fresh engine + load + enable_checkpointing (auto-restore). Oracle: the uninterrupted run of the same engine on the same events, compared output by output (type, timestamp, fields) as the run proceeds. Non-trivial = >= 4 events processed and >= 1 step with output; distinct = distinct decoded-trace hash.",
                real: vec!["Engine::{load, process, create_checkpoint/force_checkpoint, enable_checkpointing/restore_checkpoint, advance_external_watermark}", "CheckpointManager, codec, MemoryStore/FileStore", "window/sase/join/watermark checkpoint+restore code"],
                stub: vec!["event source", "the process (crash = engine dropped after a completed checkpoint)"],
                assumptions: vec!["steps whose outputs are equal as multisets but differently ordered (hash-map order after restore) are not judged", "finite values only (NaN/inf belong to C20, not claimed)"],
            },
            Prop {
                id: "C23",
                batches: vec![
                    Batch { name: "identity", quick: 6_000, thorough: 200_000, faulty: true },
                    Batch { name: "edits", quick: 14_000, thorough: 500_000, faulty: true },
                ],
                rule: "one run = a program P with 1-4 independent streams (filter, count window + aggregate, 2/3-step sequence, 2-way join over helper streams), an edit P' from a small grammar (identity, filter threshold, added filter op, window size, renamed stream, added/removed sequence step, join window), 6-30 events over all consumed types, and the reload instant as a reconfiguration event anywhere in the history (sometimes a second, identical reload later). Three engines: A never reloaded, B reloaded, C freshly loaded with P' at the reload instant. Per stream over everything emitted after the reload: identity => B == A; changed/added stream => B == C; removed => silent; unchanged stream in a changed program => B == A or B == C. Non-trivial = >= 1 stream judged and some output after the reload; distinct = distinct decoded-trace hash.",
                real: vec!["Engine::reload (change detection, router rebuild, state carry-over)", "Engine::load/process, parser"],
                stub: vec!["event source"],
                assumptions: vec!["for a stream whose definition is unchanged inside a changed program both 'state kept' and 'reset like fresh' are accepted (the statement only requires it to keep working)"],
            },
        ]
    }
    fn run(&self, prop: &str, batch: &str, tape: &mut Tape, rep: &mut Report) {
        match prop {
            "C23" => c23::run(batch, tape, rep),
            "C19" => c19::run(batch, tape, rep),
            "C24" => c24::run(batch, tape, rep),
            "C15" => c15::run(batch, tape, rep),
            "C12" => c12::run_c12(batch, tape, rep),
            "C13" => c12::run_c13(batch, tape, rep),
            _ => panic!("vsim harness: unknown property {}", prop),
        }
    }
}
static WORLD: W1 = W1;
fn main() {
    if std::env::args().nth(1).as_deref() == Some("probe") {
        probe::main();
        return;
    }
    vsim_core::driver::main(&WORLD)
}
