use crate::eng::*;
use varpulis_runtime::event::Event;
pub fn main() {
    let progs = [
        "stream A = EA\nstream B = EB\nstream J = join(A, B)\n  .on(A.k == B.k)\n  .window(2s)\n  .emit(k: A.k, sa: A.seq, sb: B.seq)",
        "stream A = EA\nstream B = EB\nstream C = EC\nstream J = join(A, B, C)\n  .on(A.k == B.k and B.k == C.k)\n  .window(2s)\n  .emit(k: A.k, sa: A.seq, sb: B.seq, sc: C.seq)",
        "stream J = join(EA, EB)\n  .on(EA.k == EB.k)\n  .window(2s)\n  .emit(k: EA.k, sa: EA.seq, sb: EB.seq)",
    ];
    for p in progs {
        println!("=== {}", p.replace('\n', " "));
        match Eng::new(p) {
            Err(e) => println!("ERR {}", e),
            Ok(mut en) => {
                for i in 0..9i64 {
                    let ty = ["EA", "EB", "EC"][(i % 3) as usize];
                    let ev = Event::new_at(ty, ts_ms(i * 700)).with_field("seq", i).with_field("k", if i % 2 == 0 { "a" } else { "a" });
                    let out = en.process(ev).unwrap();
                    println!("  in {} {} -> {:?}", i, ty, out.iter().map(show).collect::<Vec<_>>());
                }
                let cp = en.engine.create_checkpoint();
                println!("  cp joins: {:?}", cp.join_states.keys().collect::<Vec<_>>());
            }
        }
    }
}
