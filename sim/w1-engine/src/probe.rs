use crate::eng::*;
use varpulis_runtime::event::Event;
pub fn main() {
    let progs = [
        "stream W = E\n  .window(3)\n  .emit(seq: seq, k: k)",
        "stream W = E\n  .window(2s)\n  .emit(seq: seq, k: k)",
        "stream W = E\n  .partition_by(k)\n  .window(2)\n  .emit(seq: seq, k: k)",
        "stream W = E\n  .partition_by(k)\n  .window(2s)\n  .emit(seq: seq, k: k)",
        "stream W = E\n  .window(session: 2s)\n  .emit(seq: seq, k: k)",
        "stream W = E\n  .window(3, sliding: 1)\n  .emit(seq: seq, k: k)",
        "stream W = E\n  .window(3s, sliding: 1s)\n  .emit(seq: seq, k: k)",
        "stream W = E\n  .window(2s)\n  .aggregate(n: count(), lo: first(seq), hi: last(seq), s: sum(bit))\n  .emit(n: n, lo: lo, hi: hi, s: s)",
        "stream W = E\n  .watermark(out_of_order: 1s)\n  .allowed_lateness(1s)\n  .window(2s)\n  .emit(seq: seq)",
    ];
    for p in progs {
        println!("=== {}", p.replace('\n', " "));
        match Eng::new(p) {
            Err(e) => println!("ERR {}", e),
            Ok(mut en) => {
                for i in 0..8i64 {
                    let ev = Event::new_at("E", ts_ms(i * 700)).with_field("seq", i).with_field("k", if i % 2 == 0 { "a" } else { "b" }).with_field("bit", 1i64 << i);
                    let out = en.process(ev).unwrap();
                    println!("  in {} -> {:?}", i, out.iter().map(show).collect::<Vec<_>>());
                }
                let out = en.watermark("E", 100_000).unwrap();
                println!("  wm -> {:?}", out.iter().map(show).collect::<Vec<_>>());
                let cp = en.engine.create_checkpoint();
                println!("  cp windows: {:?}", cp.window_states.iter().map(|(k, w)| (k, w.events.len(), w.partitions.iter().map(|(p, q)| (p.clone(), q.events.len())).collect::<Vec<_>>())).collect::<Vec<_>>());
            }
        }
    }
}
