use crate::eng::*;
use varpulis_runtime::event::Event;
pub fn main() {
    let progs = [
        "pattern P = SEQ(A as a, B+ as bs, C as c) within 10s\nstream S = P\n  .emit(sa: a.seq, sc: c.seq)",
        "pattern P = SEQ(A as a, NOT X, C as c) within 10s\nstream S = P\n  .emit(sa: a.seq, sc: c.seq)",
        "pattern P = A AND B\nstream S = P\n  .emit(m: 1)",
        "pattern P = SEQ(A as a, B as b) within 10s partition by k\nstream S = P\n  .emit(sa: a.seq, sb: b.seq)",
        "pattern P = SEQ(A as a, B+ where v > a.v as bs, C as c)\nstream S = P\n  .emit(sa: a.seq, sc: c.seq)",
        "pattern P = SEQ(A AND B, C as c)\nstream S = P\n  .emit(sc: c.seq)",
        "var n = 0\nstream S = A\n  .emit(seq: seq)",
    ];
    let arg = std::env::args().nth(2);
    for p in progs {
        println!("=== {}", p.replace('\n', " "));
        match Eng::new(p) {
            Err(e) => println!("ERR {}", e),
            Ok(mut en) => {
                let tys = arg.clone().unwrap_or("ABBCXABCBAC".to_string());
                for (i, ch) in tys.chars().enumerate() {
                    let i = i as i64;
                    let ty = ch.to_string();
                    let ev = Event::new_at(ty.as_str(), ts_ms(i * 700)).with_field("seq", i).with_field("k", if i % 2 == 0 { "a" } else { "b" }).with_field("v", i % 4);
                    let out = en.process(ev).unwrap();
                    println!("  in {} {} -> {:?}", i, ty, out.iter().map(show).collect::<Vec<_>>());
                }
                let cp = en.engine.create_checkpoint();
                println!("  cp sase: {:?}", cp.sase_states.keys().collect::<Vec<_>>());
            }
        }
    }
}
