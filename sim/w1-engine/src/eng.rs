//! Thin driver around the real Engine: load a VPL program, feed events, drain outputs.
use chrono::{DateTime, TimeZone, Utc};
use tokio::sync::mpsc;
use varpulis_runtime::engine::Engine;
use varpulis_runtime::event::Event;
use vsim_core::exec::block_on_ready;

pub const T0_S: i64 = 1_767_225_600; // 2026-01-01T00:00:00Z == the virtual wall clock's start

pub fn ts_ms(ms: i64) -> DateTime<Utc> {
    Utc.timestamp_millis_opt(T0_S * 1000 + ms).unwrap()
}
pub fn ts_us(us: i64) -> DateTime<Utc> {
    Utc.timestamp_micros(T0_S * 1_000_000 + us).unwrap()
}

pub struct Eng {
    pub engine: Engine,
    pub rx: mpsc::Receiver<Event>,
}

impl Eng {
    pub fn new(src: &str) -> Result<Eng, String> {
        let (tx, rx) = mpsc::channel(100_000);
        let program = varpulis_parser::parse(src).map_err(|e| format!("parse: {}", e))?;
        let mut engine = Engine::new(tx);
        engine.load(&program).map_err(|e| format!("load: {}", e))?;
        Ok(Eng { engine, rx })
    }
    pub fn drain(&mut self) -> Vec<Event> {
        let mut v = vec![];
        while let Ok(e) = self.rx.try_recv() {
            v.push(e);
        }
        v
    }
    pub fn process(&mut self, ev: Event) -> Result<Vec<Event>, String> {
        block_on_ready(self.engine.process(ev))?;
        Ok(self.drain())
    }
    pub fn process_batch(&mut self, evs: Vec<Event>) -> Result<Vec<Event>, String> {
        block_on_ready(self.engine.process_batch(evs))?;
        Ok(self.drain())
    }
    pub fn watermark(&mut self, source: &str, wm_ms: i64) -> Result<Vec<Event>, String> {
        block_on_ready(self.engine.advance_external_watermark(source, T0_S * 1000 + wm_ms))?;
        Ok(self.drain())
    }
    pub fn sweep_sessions(&mut self) -> Result<Vec<Event>, String> {
        block_on_ready(self.engine.flush_expired_sessions())?;
        Ok(self.drain())
    }
}

pub fn show(e: &Event) -> String {
    let mut s = format!("{}@{}{{", e.event_type, e.timestamp.timestamp_micros() - T0_S * 1_000_000);
    for (k, v) in &e.data {
        s.push_str(&format!("{}={:?},", k, v));
    }
    s.push('}');
    s
}
