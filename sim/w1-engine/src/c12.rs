//! C12 — tumbling, count and session windows partition their input exactly.
//! C13 — sliding windows contain exactly the events in range at each emission.
//!
//! Two drivers behind one trait: the public window structs (contents and order
//! directly visible) and the real Engine pipeline (`.window(..).emit(seq, k)`),
//! which also reaches the partitioned count windows that are crate-private.

use crate::eng::*;
use chrono::Duration;
use std::collections::BTreeMap;
use std::sync::Arc;
use varpulis_runtime::event::Event;
use varpulis_runtime::window::*;
use vsim_core::{clock, Report, Tape};

#[derive(Clone, Debug)]
pub struct Arr {
    pub seq: i64,
    pub ts_ms: i64,
    pub key: &'static str,
}

const KEYS: [&str; 3] = ["a", "b", "c"];

fn mk_event(a: &Arr) -> Event {
    Event::new_at("E", ts_ms(a.ts_ms)).with_field("seq", a.seq).with_field("k", a.key)
}

/// One closed window: the seqs it contained, in emission order.
type Closed = Vec<i64>;

trait Driver {
    fn add(&mut self, a: &Arr) -> Vec<Closed>;
    fn watermark(&mut self, wm_ms: i64) -> Vec<Closed>;
    fn sweep(&mut self, now_ms: i64) -> Vec<Closed>;
    /// what is still buffered, in buffer order (per partition for partitioned windows)
    fn finish(&mut self) -> Vec<Closed>;
}

#[derive(Clone, Copy, Debug, PartialEq)]
pub enum Kind {
    Tumbling(i64),
    Count(usize),
    Session(i64),
    SlidingTime(i64, i64),
    SlidingCount(usize, usize),
}

fn seqs(v: &[varpulis_runtime::event::SharedEvent]) -> Closed {
    v.iter().map(|e| e.get_int("seq").unwrap_or(-1)).collect()
}

enum S {
    T(TumblingWindow),
    C(CountWindow),
    Se(SessionWindow),
    PT(PartitionedTumblingWindow),
    PSe(PartitionedSessionWindow),
    Sl(SlidingWindow),
    SlC(SlidingCountWindow),
    PSl(PartitionedSlidingWindow),
}
struct StructDriver(S);

impl Driver for StructDriver {
    fn add(&mut self, a: &Arr) -> Vec<Closed> {
        let e = Arc::new(mk_event(a));
        let r = match &mut self.0 {
            S::T(w) => w.add_shared(e),
            S::C(w) => w.add_shared(e),
            S::Se(w) => w.add_shared(e),
            S::PT(w) => w.add_shared(e),
            S::PSe(w) => w.add_shared(e),
            S::Sl(w) => w.add_shared(e),
            S::SlC(w) => w.add_shared(e),
            S::PSl(w) => w.add_shared(e),
        };
        r.into_iter().map(|v| seqs(&v)).collect()
    }
    fn watermark(&mut self, wm_ms: i64) -> Vec<Closed> {
        let wm = ts_ms(wm_ms);
        match &mut self.0 {
            S::T(w) => w.advance_watermark(wm).into_iter().map(|v| seqs(&v)).collect(),
            S::Se(w) => w.advance_watermark(wm).into_iter().map(|v| seqs(&v)).collect(),
            S::PT(w) => w.advance_watermark(wm).into_iter().map(|(_, v)| seqs(&v)).collect(),
            S::PSe(w) => w.advance_watermark(wm).into_iter().map(|(_, v)| seqs(&v)).collect(),
            S::Sl(w) => w.advance_watermark(wm).into_iter().map(|v| seqs(&v)).collect(),
            S::PSl(w) => w.advance_watermark(wm).into_iter().map(|(_, v)| seqs(&v)).collect(),
            S::C(_) | S::SlC(_) => vec![],
        }
    }
    fn sweep(&mut self, now_ms: i64) -> Vec<Closed> {
        let now = ts_ms(now_ms);
        match &mut self.0 {
            S::Se(w) => w.check_expired(now).into_iter().map(|v| seqs(&v)).collect(),
            S::PSe(w) => w.check_expired(now).into_iter().map(|(_, v)| seqs(&v)).collect(),
            _ => vec![],
        }
    }
    fn finish(&mut self) -> Vec<Closed> {
        match &mut self.0 {
            S::T(w) => vec![seqs(&w.flush_shared())],
            S::C(w) => vec![seqs(&w.flush_shared())],
            S::Se(w) => vec![seqs(&w.flush_shared())],
            // partitioned flushes concatenate partitions; order across partitions is unspecified, judged per key
            S::PT(w) => vec![seqs(&w.flush_shared())],
            S::PSe(w) => vec![seqs(&w.flush_shared())],
            S::Sl(w) => vec![seqs(&w.current_shared())],
            S::SlC(_) => vec![],
            S::PSl(w) => vec![seqs(&w.current_all_shared())],
        }
    }
}

struct EngineDriver {
    e: Eng,
    partitioned: bool,
}

fn group(out: Vec<Event>, partitioned: bool) -> Vec<Closed> {
    if out.is_empty() {
        return vec![];
    }
    if !partitioned {
        return vec![out.iter().map(|e| e.get_int("seq").unwrap_or(-1)).collect()];
    }
    let mut m: Vec<(String, Closed)> = vec![];
    for e in &out {
        let k = e.get_str("k").unwrap_or("").to_string();
        match m.iter_mut().find(|(kk, _)| *kk == k) {
            Some((_, v)) => v.push(e.get_int("seq").unwrap_or(-1)),
            None => m.push((k, vec![e.get_int("seq").unwrap_or(-1)])),
        }
    }
    m.into_iter().map(|(_, v)| v).collect()
}

impl Driver for EngineDriver {
    fn add(&mut self, a: &Arr) -> Vec<Closed> {
        let out = self.e.process(mk_event(a)).expect("engine.process");
        group(out, self.partitioned)
    }
    fn watermark(&mut self, wm_ms: i64) -> Vec<Closed> {
        let out = self.e.watermark("E", wm_ms).expect("advance_external_watermark");
        group(out, self.partitioned)
    }
    fn sweep(&mut self, now_ms: i64) -> Vec<Closed> {
        // flush_expired_sessions reads Utc::now(): the virtual wall clock
        let cur = clock::REAL_NS.load(std::sync::atomic::Ordering::SeqCst);
        clock::jump_wall_ns((T0_S * 1000 + now_ms) * 1_000_000 - cur);
        let out = self.e.sweep_sessions().expect("flush_expired_sessions");
        group(out, self.partitioned)
    }
    fn finish(&mut self) -> Vec<Closed> {
        let cp = self.e.engine.create_checkpoint();
        let mut v = vec![];
        for (_, w) in cp.window_states {
            let ids = |evs: &Vec<varpulis_runtime::persistence::SerializableEvent>| -> Closed {
                evs.iter()
                    .map(|se| {
                        let ev: Event = se.clone().into();
                        ev.get_int("seq").unwrap_or(-1)
                    })
                    .collect()
            };
            if !w.events.is_empty() {
                v.push(ids(&w.events));
            }
            let mut parts: Vec<_> = w.partitions.into_iter().collect();
            parts.sort_by(|a, b| a.0.cmp(&b.0));
            for (_, p) in parts {
                if !p.events.is_empty() {
                    v.push(ids(&p.events));
                }
            }
        }
        v
    }
}

fn window_arg(kind: Kind) -> String {
    match kind {
        Kind::Tumbling(d) => format!("{}s", d),
        Kind::Count(n) => format!("{}", n),
        Kind::Session(g) => format!("session: {}s", g),
        Kind::SlidingTime(sz, sl) => format!("{}s, sliding: {}s", sz, sl),
        Kind::SlidingCount(sz, sl) => format!("{}, sliding: {}", sz, sl),
    }
}

fn make_driver(level_engine: bool, kind: Kind, partitioned: bool, with_wm: bool) -> Box<dyn Driver> {
    if level_engine {
        let mut src = String::from("stream W = E\n");
        if with_wm {
            src.push_str("  .watermark(out_of_order: 0s)\n");
        }
        if partitioned {
            src.push_str("  .partition_by(k)\n");
        }
        src.push_str(&format!("  .window({})\n  .emit(seq: seq, k: k)\n", window_arg(kind)));
        let e = Eng::new(&src).unwrap_or_else(|e| panic!("vsim harness: program rejected: {} :: {}", e, src));
        Box::new(EngineDriver { e, partitioned })
    } else {
        let s = match (kind, partitioned) {
            (Kind::Tumbling(d), false) => S::T(TumblingWindow::new(Duration::seconds(d))),
            (Kind::Tumbling(d), true) => S::PT(PartitionedTumblingWindow::new("k".into(), Duration::seconds(d))),
            (Kind::Count(n), _) => S::C(CountWindow::new(n)),
            (Kind::Session(g), false) => S::Se(SessionWindow::new(Duration::seconds(g))),
            (Kind::Session(g), true) => S::PSe(PartitionedSessionWindow::new("k".into(), Duration::seconds(g))),
            (Kind::SlidingTime(a, b), false) => S::Sl(SlidingWindow::new(Duration::seconds(a), Duration::seconds(b))),
            (Kind::SlidingTime(a, b), true) => S::PSl(PartitionedSlidingWindow::new("k".into(), Duration::seconds(a), Duration::seconds(b))),
            (Kind::SlidingCount(a, b), _) => S::SlC(SlidingCountWindow::new(a, b)),
        };
        Box::new(StructDriver(s))
    }
}

/// Arrival sequence from 1-3 sources with their own event-time clocks.
fn gen_arrivals(tape: &mut Tape, n: u64, in_order: bool, nkeys: u64) -> Vec<Arr> {
    let nsrc = tape.range(1, 3) as usize;
    let mut clk = vec![0i64; nsrc];
    for c in clk.iter_mut() {
        *c = tape.draw(4) as i64 * 500;
    }
    let mut out = vec![];
    let mut last = 0i64;
    for seq in 0..n as i64 {
        let s = tape.draw(nsrc as u64) as usize;
        // coarse grid (500 ms) so ties and exact-boundary cases are frequent
        let step = *tape.pick(&[0i64, 0, 500, 500, 1000, 1000, 1500, 2000, 3000, 5000]);
        clk[s] += step;
        let mut ts = clk[s];
        if in_order {
            // in-order config: the merged stream is non-decreasing in timestamp
            ts = ts.max(last);
            clk[s] = ts;
        } else if tape.chance(1, 5) {
            // straggler: delivered late, stamped earlier
            ts = (ts - tape.range(1, 8) as i64 * 500).max(0);
        }
        last = last.max(ts);
        out.push(Arr { seq, ts_ms: ts, key: KEYS[tape.draw(nkeys) as usize] });
    }
    out
}

pub fn run_c12(batch: &str, tape: &mut Tape, rep: &mut Report) {
    let in_order = batch.starts_with("inorder");
    let level_engine = tape.chance(1, 2);
    let kind = match tape.draw(3) {
        0 => Kind::Tumbling(tape.range(1, 5) as i64),
        1 => Kind::Count(tape.range(1, 5) as usize),
        _ => Kind::Session(tape.range(1, 5) as i64),
    };
    // struct-level count windows have no partitioned variant; the engine has one
    let partitioned = tape.chance(1, 2) && (level_engine || !matches!(kind, Kind::Count(_)));
    let with_wm = !matches!(kind, Kind::Count(_)) && batch != "inorder-plain" && tape.chance(2, 3);
    let n = tape.range(3, 40);
    let nkeys = if partitioned { tape.range(1, 3) } else { 1 };
    let arr = gen_arrivals(tape, n, in_order, nkeys);
    rep.config = format!("level={} kind={:?} partitioned={} watermarks={} in_order={} n={}", if level_engine { "engine" } else { "struct" }, kind, partitioned, with_wm, in_order, n);
    rep.log(format!("config {}", rep.config));
    let mut d = make_driver(level_engine, kind, partitioned, with_wm);

    let mut closed: Vec<Closed> = vec![];
    let mut max_ts = 0i64;
    let mut wm_last = -1i64;
    let mut late_after_close = false;
    for a in &arr {
        // watermark / sweep events interleaved with arrivals, at tape-chosen instants
        if with_wm && tape.chance(1, 4) {
            let wm = if in_order { (max_ts + (tape.draw(5) as i64 - 2) * 500).max(0) } else { (max_ts + (tape.draw(9) as i64 - 3) * 500).max(0) };
            if wm > wm_last {
                wm_last = wm;
                let c: Vec<Closed> = d.watermark(wm).into_iter().filter(|w| !w.is_empty()).collect();
                rep.fault("watermark-advance");
                if !c.is_empty() {
                    rep.probe("watermark-closed-a-window");
                }
                rep.log(format!("watermark {} -> closed {:?}", wm, c));
                closed.extend(c);
            }
        }
        if matches!(kind, Kind::Session(_)) && tape.chance(1, 6) {
            let jump = if tape.chance(1, 4) { rep.fault("wall-clock-jump"); tape.range(1, 20) as i64 * 1000 } else { tape.draw(3) as i64 * 500 };
            let now = max_ts + jump;
            let c: Vec<Closed> = d.sweep(now).into_iter().filter(|w| !w.is_empty()).collect();
            rep.fault("session-sweep");
            if !c.is_empty() {
                rep.probe("sweep-closed-a-session");
            }
            rep.log(format!("sweep now={} -> closed {:?}", now, c));
            closed.extend(c);
        }
        if a.ts_ms < wm_last {
            late_after_close = true;
            rep.probe("late-arrival-after-watermark");
        }
        let c: Vec<Closed> = d.add(a).into_iter().filter(|w| !w.is_empty()).collect();
        rep.ops += 1;
        rep.log(format!("arrive seq={} ts={} k={} -> closed {:?}", a.seq, a.ts_ms, a.key, c));
        closed.extend(c);
        max_ts = max_ts.max(a.ts_ms);
    }
    let buffered = d.finish();
    rep.log(format!("still buffered {:?}", buffered));

    // ---- oracle ----
    let by_seq: BTreeMap<i64, &Arr> = arr.iter().map(|a| (a.seq, a)).collect();
    let mut seen: BTreeMap<i64, u32> = BTreeMap::new();
    for w in closed.iter().chain(buffered.iter()) {
        for s in w {
            *seen.entry(*s).or_insert(0) += 1;
        }
    }
    let sig = format!("{:?}", kind).split('(').next().unwrap_or("?").to_lowercase() + if partitioned { "-partitioned" } else { "" };
    for a in &arr {
        match seen.get(&a.seq).copied().unwrap_or(0) {
            1 => {}
            0 => rep.violate("event-lost-by-window", &sig, format!("seq={} reached the window but is in no closed window and not buffered", a.seq)),
            k => rep.violate("event-emitted-twice", &sig, format!("seq={} appears {} times", a.seq, k)),
        }
    }
    for s in seen.keys() {
        if !by_seq.contains_key(s) {
            rep.violate("unknown-event-in-window", &sig, format!("seq={} was never delivered", s));
        }
    }
    // arrival order inside every closed window and buffer, and across the windows of one partition
    let mut last_of_key: BTreeMap<&str, i64> = BTreeMap::new();
    for (i, w) in closed.iter().enumerate() {
        for pair in w.windows(2) {
            let same_key = by_seq.get(&pair[0]).map(|a| a.key) == by_seq.get(&pair[1]).map(|a| a.key);
            if pair[1] <= pair[0] && (same_key || !partitioned) {
                rep.violate("window-not-in-arrival-order", &sig, format!("closed window #{} = {:?}", i, w));
            }
        }
        for s in w {
            if let Some(a) = by_seq.get(s) {
                let k = if partitioned { a.key } else { "" };
                if let Some(prev) = last_of_key.get(k) {
                    if *s <= *prev {
                        rep.violate("windows-not-in-arrival-order", &sig, format!("seq={} closed after seq={} of the same partition", s, prev));
                    }
                }
                last_of_key.insert(k, *s);
            }
        }
    }
    if let Kind::Count(nw) = kind {
        for w in &closed {
            // one partition per closed window
            if w.len() != nw {
                rep.violate("count-window-wrong-size", &sig, format!("count window of size {} closed with {:?}", nw, w));
            }
        }
    }
    if in_order && !late_after_close {
        match kind {
            Kind::Tumbling(d) => {
                for w in &closed {
                    let first = by_seq[&w[0]].ts_ms;
                    for s in w {
                        if by_seq[s].ts_ms >= first + d * 1000 {
                            rep.violate("tumbling-window-holds-event-past-its-end", &sig, format!("window {:?}: seq={} ts={} >= first ts {} + {}s", w, s, by_seq[s].ts_ms, first, d));
                        }
                    }
                }
            }
            Kind::Session(g) => {
                for w in &closed {
                    for pair in w.windows(2) {
                        let gap = by_seq[&pair[1]].ts_ms - by_seq[&pair[0]].ts_ms;
                        if gap > g * 1000 {
                            rep.violate("session-holds-gap-larger-than-session-gap", &sig, format!("session {:?}: gap {}ms between seq={} and seq={} > {}s", w, gap, pair[0], pair[1], g));
                        }
                    }
                }
            }
            _ => {}
        }
    }
    rep.state(vsim_core::rng::mix(&[closed.len() as u64, buffered.iter().map(|b| b.len() as u64).sum::<u64>(), partitioned as u64]));
    rep.nontrivial = closed.len() >= 2 && (!with_wm || rep.faults.contains_key("watermark-advance"));
}

pub fn run_c13(_batch: &str, tape: &mut Tape, rep: &mut Report) {
    let level_engine = tape.chance(1, 2);
    let kind = if tape.chance(1, 2) {
        let size = tape.range(1, 5) as i64;
        // every (size, slide) pair of the range, slide longer than the window included
        Kind::SlidingTime(size, tape.range(1, 5) as i64)
    } else {
        let size = tape.range(1, 5) as usize;
        Kind::SlidingCount(size, tape.range(1, size as u64 + 2) as usize)
    };
    let partitioned = tape.chance(1, 2) && (level_engine || matches!(kind, Kind::SlidingTime(..)));
    let n = tape.range(3, 40);
    let nkeys = if partitioned { tape.range(1, 3) } else { 1 };
    let arr = gen_arrivals(tape, n, true, nkeys);
    rep.config = format!("level={} kind={:?} partitioned={} n={}", if level_engine { "engine" } else { "struct" }, kind, partitioned, n);
    rep.log(format!("config {}", rep.config));
    let mut d = make_driver(level_engine, kind, partitioned, false);
    let sig = format!("{:?}", kind).split('(').next().unwrap_or("?").to_lowercase() + if partitioned { "-partitioned" } else { "" };

    // reference model, per partition
    struct P {
        hist: Vec<Arr>,
        last_emit: Option<i64>,
        since_emit: usize,
        emitted_once: bool,
    }
    let mut parts: BTreeMap<&str, P> = BTreeMap::new();
    let mut emissions = 0u64;
    for a in &arr {
        let got = d.add(a);
        rep.ops += 1;
        rep.log(format!("arrive seq={} ts={} k={} -> emitted {:?}", a.seq, a.ts_ms, a.key, got));
        let key = if partitioned { a.key } else { "" };
        let p = parts.entry(key).or_insert(P { hist: vec![], last_emit: None, since_emit: 0, emitted_once: false });
        p.hist.push(a.clone());
        p.since_emit += 1;
        if got.len() > 1 {
            rep.violate("several-emissions-for-one-arrival", &sig, format!("{:?}", got));
            continue;
        }
        let got = got.into_iter().next();
        match kind {
            Kind::SlidingTime(size, slide) => {
                // emission instant: judged except for the very first emission and for exact equality with the slide boundary
                let expect = match p.last_emit {
                    None => None,
                    Some(l) if a.ts_ms > l + slide * 1000 => Some(true),
                    Some(l) if a.ts_ms < l + slide * 1000 => Some(false),
                    _ => None,
                };
                match (expect, got.is_some()) {
                    (Some(true), false) => rep.violate("sliding-window-missed-emission", &sig, format!("seq={} ts={} is more than {}s after the previous emission at {:?} but nothing was emitted", a.seq, a.ts_ms, slide, p.last_emit)),
                    (Some(false), true) => rep.violate("sliding-window-early-emission", &sig, format!("seq={} ts={} is less than {}s after the previous emission at {:?} but the window was emitted", a.seq, a.ts_ms, slide, p.last_emit)),
                    (None, _) => rep.not_judged += 1,
                    _ => {}
                }
                if let Some(w) = &got {
                    emissions += 1;
                    p.last_emit = Some(a.ts_ms);
                    let lo = a.ts_ms - size * 1000;
                    let must: Vec<i64> = p.hist.iter().filter(|h| h.ts_ms > lo).map(|h| h.seq).collect();
                    let may: Vec<i64> = p.hist.iter().filter(|h| h.ts_ms >= lo).map(|h| h.seq).collect();
                    // w must be `may` minus possibly some boundary elements, and a superset of `must`, in arrival order
                    let ok_sub = w.iter().all(|s| may.contains(s)) && must.iter().all(|s| w.contains(s));
                    let ordered = w.windows(2).all(|x| x[0] < x[1]);
                    if !ok_sub || !ordered {
                        rep.violate("sliding-window-wrong-contents", &sig, format!("emission at seq={} ts={}: got {:?}, events within {}s of the trigger are {:?} (boundary-inclusive {:?})", a.seq, a.ts_ms, w, size, must, may));
                    }
                    // Whether an event stamped exactly `size` before the trigger belongs to the window is left open by the
                    // statement, but membership is a function of the timestamp: events sharing that boundary timestamp are
                    // either all in the emission or all out of it (never split).
                    let boundary: Vec<i64> = p.hist.iter().filter(|h| h.ts_ms == lo).map(|h| h.seq).collect();
                    let present = boundary.iter().filter(|s| w.contains(s)).count();
                    if boundary.len() >= 2 {
                        rep.probe("tie-exactly-on-the-window-boundary");
                    }
                    if present != 0 && present != boundary.len() {
                        rep.violate("sliding-window-wrong-contents", &format!("{};boundary-ties-split", sig), format!("emission at seq={} ts={}: events {:?} all carry the boundary timestamp {} but only {} of them are in the emission {:?}", a.seq, a.ts_ms, boundary, lo, present, w));
                    }
                }
            }
            Kind::SlidingCount(size, slide) => {
                let full = p.hist.len() >= size;
                // first emission: with slide <= size it falls on the arrival that fills the window; with slide > size the
                // statement leaves open whether the slide count runs from the start of the stream or from the first full
                // window, so that one emission instant is not judged (every later one is: `slide` arrivals after the previous)
                let expect = if !full { false } else if !p.emitted_once { if slide <= size { true } else { rep.not_judged += 1; got.is_some() } } else { p.since_emit >= slide };
                if expect != got.is_some() {
                    let cls = if expect { "sliding-window-missed-emission" } else { "sliding-window-early-emission" };
                    rep.violate(cls, &sig, format!("seq={}: {} events in partition, {} since last emission, size={} slide={}, emitted={}", a.seq, p.hist.len(), p.since_emit, size, slide, got.is_some()));
                }
                if let Some(w) = &got {
                    emissions += 1;
                    p.emitted_once = true;
                    p.since_emit = 0;
                    let want: Vec<i64> = p.hist.iter().rev().take(size).rev().map(|h| h.seq).collect();
                    if *w != want {
                        rep.violate("sliding-window-wrong-contents", &sig, format!("emission at seq={}: got {:?}, last {} events are {:?}", a.seq, w, size, want));
                    }
                }
            }
            _ => unreachable!(),
        }
    }
    rep.state(vsim_core::rng::mix(&[emissions, parts.len() as u64]));
    rep.nontrivial = emissions >= 3;
}
