//! C19 — checkpoint and restore are invisible in the output.
//! A crash is: force_checkpoint() through the real CheckpointManager → codec → store, drop the
//! engine, build a fresh one, load, enable_checkpointing on the same store (auto-restore).
//! The uninterrupted run of the same program on the same events is the reference.

use crate::eng::*;
use std::sync::Arc;
use varpulis_runtime::event::Event;
use varpulis_runtime::persistence::{CheckpointConfig, FileStore, MemoryStore, StateStore};
use vsim_core::{clock, Report, Tape};

pub struct Feature {
    pub name: String,
    pub src: String,
    pub types: Vec<&'static str>,
    pub watermark_source: Option<&'static str>,
    /// name of a mutable engine variable the history may set through Engine::set_variable
    pub variable: Option<&'static str>,
}

pub fn gen_feature(tape: &mut Tape, only: Option<u64>) -> Feature {
    let pick = only.unwrap_or_else(|| tape.draw(9));
    match pick {
        0..=2 => {
            // windows
            let (wname, arg) = match tape.draw(5) {
                0 => ("tumbling", format!("{}s", tape.range(1, 4))),
                1 => ("count", format!("{}", tape.range(2, 4))),
                2 => ("session", format!("session: {}s", tape.range(1, 3))),
                3 => {
                    let n = tape.range(2, 4);
                    ("sliding-count", format!("{}, sliding: {}", n, tape.range(1, n)))
                }
                _ => {
                    let n = tape.range(2, 4);
                    ("sliding-time", format!("{}s, sliding: {}s", n, tape.range(1, n)))
                }
            };
            let part = tape.chance(1, 3);
            let agg = tape.chance(1, 2);
            let mut src = String::from("stream S = E\n");
            if part {
                src.push_str("  .partition_by(k)\n");
            }
            src.push_str(&format!("  .window({})\n", arg));
            if agg {
                src.push_str("  .aggregate(n: count(), s: sum(v), lo: first(seq), hi: last(seq))\n  .emit(n: n, s: s, lo: lo, hi: hi)\n");
            } else {
                src.push_str("  .emit(seq: seq, k: k)\n");
            }
            Feature { name: format!("window:{}{}", wname, if part { "-partitioned" } else { "" }), src, types: vec!["E"], watermark_source: None, variable: None }
        }
        3..=5 => {
            // sequences
            let steps = tape.range(2, 3);
            let kleene = tape.chance(1, 3);
            let neg = !kleene && tape.chance(1, 3);
            let keyed = tape.chance(1, 2);
            let within = tape.chance(1, 3);
            let mut src = String::from("stream S = A as a\n");
            let w = if keyed { " where k == a.k" } else { "" };
            src.push_str(&format!("  -> {}B{} as b\n", if kleene { "all " } else { "" }, w));
            if steps == 3 {
                src.push_str(&format!("  -> C{} as c\n", w));
            }
            if within {
                src.push_str("  .within(10s)\n");
            }
            if neg {
                src.push_str(&format!("  .not(X{})\n", w));
            }
            if steps == 3 {
                src.push_str("  .emit(sa: a.seq, sb: b.seq, sc: c.seq)\n");
            } else {
                src.push_str("  .emit(sa: a.seq, sb: b.seq)\n");
            }
            let mut name = String::from("sequence");
            if kleene { name.push_str(":all"); }
            if neg { name.push_str(":not"); }
            if keyed { name.push_str(":keyed"); }
            if within { name.push_str(":within"); }
            if steps == 3 { name.push_str(":3step"); }
            let mut types = vec!["A", "B"];
            if steps == 3 { types.push("C"); }
            if neg { types.push("X"); }
            Feature { name, src, types, watermark_source: None, variable: None }
        }
        6 => {
            let w = tape.range(1, 4);
            Feature {
                name: "join".into(),
                src: format!("stream A = EA\nstream B = EB\nstream S = join(A, B)\n  .on(A.k == B.k)\n  .window({}s)\n  .emit(k: A.k, sa: A.seq, sb: B.seq)\n", w),
                types: vec!["EA", "EB"],
                watermark_source: None,
                variable: None,
            }
        }
        7 => {
            if tape.chance(1, 2) {
                Feature { name: "distinct".into(), src: "stream S = E\n  .distinct(v)\n  .emit(seq: seq, v: v)\n".into(), types: vec!["E"], watermark_source: None, variable: None }
            } else {
                Feature { name: "limit".into(), src: format!("stream S = E\n  .limit({})\n  .emit(seq: seq)\n", tape.range(1, 6)), types: vec!["E"], watermark_source: None, variable: None }
            }
        }
        9 => {
            // named SASE+ patterns: Kleene closures (with predicates on earlier aliases), AND / OR, partitioning
            let within = if tape.chance(1, 2) { " within 10s" } else { "" };
            let part = if tape.chance(1, 3) { " partition by k" } else { "" };
            let (name, pat, emit, types): (&str, String, &str, Vec<&'static str>) = match tape.draw(7) {
                0 => ("kleene-plus", "SEQ(A as a, B+ as bs, C as c)".into(), "sa: a.seq, sc: c.seq", vec!["A", "B", "C"]),
                1 => ("kleene-plus-predicate", "SEQ(A as a, B+ where v > a.v as bs, C as c)".into(), "sa: a.seq, sc: c.seq", vec!["A", "B", "C"]),
                2 => ("kleene-star", "SEQ(A as a, B* as bs, C as c)".into(), "sa: a.seq, sc: c.seq", vec!["A", "B", "C"]),
                3 => ("and", "A AND B".into(), "m: 1", vec!["A", "B", "C"]),
                4 => ("or", "A OR B".into(), "m: 1", vec!["A", "B", "C"]),
                5 => ("seq-predicate", "SEQ(A as a, B where v >= a.v as b)".into(), "sa: a.seq, sb: b.seq", vec!["A", "B"]),
                _ => ("kleene-plus-tail", "SEQ(A as a, B+ as bs)".into(), "sa: a.seq", vec!["A", "B"]),
            };
            let src = format!("pattern P = {}{}{}\nstream S = P\n  .emit({})\n", pat, within, part, emit);
            // the signature names the pattern shape; `within` / `partition by` are in the program text (config)
            Feature { name: format!("pattern:{}", name), src, types, watermark_source: None, variable: None }
        }
        10 => {
            // a mutable variable used by a filter and set through the API while the engine runs
            let win = tape.chance(1, 3);
            let mut src = String::from("var t = 2\nstream S = E\n  .where(v > t)\n");
            if win { src.push_str("  .window(2)\n  .aggregate(n: count(), lo: first(seq))\n  .emit(n: n, lo: lo)\n"); } else { src.push_str("  .emit(seq: seq, v: v)\n"); }
            Feature { name: format!("variable{}", if win { ":count-window" } else { "" }), src, types: vec!["E"], watermark_source: None, variable: Some("t") }
        }
        _ => {
            let ooo = tape.draw(3) * 500;
            let late = tape.draw(3) * 500;
            let win = tape.chance(1, 2);
            let mut src = format!("stream S = E\n  .watermark(out_of_order: {}ms)\n  .allowed_lateness({}ms)\n", ooo, late);
            if win {
                src.push_str(&format!("  .window({}s)\n", tape.range(1, 3)));
            }
            src.push_str("  .emit(seq: seq)\n");
            Feature { name: format!("watermark{}", if win { ":tumbling" } else { "" }), src, types: vec!["E"], watermark_source: Some("E"), variable: None }
        }
    }
}

pub fn gen_events(tape: &mut Tape, types: &[&'static str], n: u64, subms: bool, disorder: bool) -> Vec<Event> {
    let mut t_us: i64 = 0;
    let mut v = vec![];
    for seq in 0..n as i64 {
        t_us += *tape.pick(&[0i64, 300_000, 500_000, 700_000, 1_000_000, 1_500_000, 2_500_000]);
        let mut ts = t_us;
        if disorder && tape.chance(1, 5) {
            ts = (ts - tape.range(1, 6) as i64 * 500_000).max(0);
        }
        if subms {
            ts += tape.range(1, 999) as i64;
        }
        let ty = *tape.pick(types);
        let k = *tape.pick(&["x", "y"]);
        v.push(Event::new_at(ty, ts_us(ts)).with_field("seq", seq).with_field("k", k).with_field("v", tape.range(1, 4) as i64));
    }
    v
}

fn canon(e: &Event) -> String {
    let mut fields: Vec<String> = e.data.iter().map(|(k, v)| format!("{}={:?}", k, v)).collect();
    fields.sort();
    format!("{}@{}{{{}}}", e.event_type, e.timestamp.timestamp_micros() - T0_S * 1_000_000, fields.join(","))
}

fn set_clock(step: i64) {
    // both engines see the same wall clock and monotonic clock at the same step
    clock::set_mono_ns(clock::MONO_BASE_NS + step * 1_000_000);
    let cur = clock::REAL_NS.load(std::sync::atomic::Ordering::SeqCst);
    clock::jump_wall_ns(clock::REAL_BASE_NS + step * 1_000_000 - cur);
}

pub fn scratch() -> std::path::PathBuf {
    let base: std::path::PathBuf = if std::path::Path::new("/dev/shm").is_dir() { "/dev/shm".into() } else { std::env::temp_dir() };
    let d = base.join(format!("vsim-w1-{}", std::process::id()));
    let _ = std::fs::remove_dir_all(&d);
    std::fs::create_dir_all(&d).expect("scratch");
    d
}

/// Run one (program, events, cuts) case; returns the step index of the first divergence.
fn run_case(f: &Feature, events: &[Event], wm_ops: &[(usize, i64)], cuts: &[usize], file_store: bool, rep: &mut Report, sig_extra: &str) -> bool {
    // variable assignments ride in wm_ops when the feature has a variable (position, new value)
    let mut r = match Eng::new(&f.src) {
        Ok(e) => e,
        Err(e) => {
            rep.violate("harness-program-rejected", &f.name, format!("{} :: {}", e, f.src));
            return false;
        }
    };
    let dir = if file_store { Some(scratch()) } else { None };
    let store: Arc<dyn StateStore> = match &dir {
        Some(d) => Arc::new(FileStore::open(d).expect("FileStore")),
        None => Arc::new(MemoryStore::new()),
    };
    let cfg = CheckpointConfig { max_checkpoints: 2, ..Default::default() };
    let mut t = Eng::new(&f.src).expect("second load");
    t.engine.enable_checkpointing(store.clone(), cfg.clone()).expect("enable_checkpointing");
    let mut ok = true;
    for (i, ev) in events.iter().enumerate() {
        if cuts.contains(&i) {
            set_clock(i as i64);
            if let Err(e) = t.engine.force_checkpoint() {
                rep.violate("checkpoint-failed", &f.name, format!("force_checkpoint at cut {}: {}", i, e));
                ok = false;
                break;
            }
            let pending = t.drain();
            drop(t);
            t = Eng::new(&f.src).expect("reload");
            if let Err(e) = t.engine.enable_checkpointing(store.clone(), cfg.clone()) {
                rep.violate("restore-failed", &f.name, format!("enable_checkpointing (auto-restore) at cut {}: {}", i, e));
                ok = false;
                break;
            }
            rep.fault("crash-restore");
            rep.log(format!("--- cut before event #{}: checkpoint, drop engine, fresh engine restores ({} outputs pending at cut)", i, pending.len()));
        }
        for (at, val) in wm_ops {
            if *at == i {
                if let Some(var) = f.variable {
                    use varpulis_core::Value;
                    let a = r.engine.set_variable(var, Value::Int(*val));
                    let b = t.engine.set_variable(var, Value::Int(*val));
                    rep.log(format!("--- before #{}: set variable {} := {} -> {:?} / {:?}", i, var, val, a, b));
                    if a.is_ok() != b.is_ok() {
                        rep.violate("output-diverges-after-restore", &format!("{}{};set-variable-result-differs", f.name, sig_extra), format!("before #{}: set_variable({}, {}) uninterrupted {:?}, restored {:?}", i, var, val, a, b));
                        ok = false;
                    }
                }
            }
        }
        for (at, wm) in wm_ops {
            if *at == i {
                if let Some(s) = f.watermark_source {
                    set_clock(i as i64);
                    let a = r.watermark(s, *wm).expect("wm");
                    set_clock(i as i64);
                    let b = t.watermark(s, *wm).expect("wm");
                    rep.fault("watermark-advance");
                    if !compare(&a, &b, rep, f, i, &format!("watermark {}", wm), sig_extra) {
                        ok = false;
                    }
                }
            }
        }
        if !ok {
            break;
        }
        set_clock(i as i64);
        let a = r.process(ev.clone()).expect("process (reference)");
        set_clock(i as i64);
        let b = t.process(ev.clone()).expect("process (restored)");
        rep.ops += 1;
        if !compare(&a, &b, rep, f, i, &canon(ev), sig_extra) {
            ok = false;
            break;
        }
    }
    if let Some(d) = dir {
        let _ = std::fs::remove_dir_all(d);
    }
    ok
}

fn compare(a: &[Event], b: &[Event], rep: &mut Report, f: &Feature, i: usize, what: &str, sig_extra: &str) -> bool {
    let ca: Vec<String> = a.iter().map(canon).collect();
    let cb: Vec<String> = b.iter().map(canon).collect();
    rep.log(format!("#{} {} -> {:?}", i, what, ca));
    if ca == cb {
        return true;
    }
    let (mut sa, mut sb) = (ca.clone(), cb.clone());
    sa.sort();
    sb.sort();
    if sa == sb {
        // same outputs, different order inside one step (map iteration order after restore): not judged
        rep.not_judged += 1;
        rep.probe("same-outputs-different-order-in-one-step");
        return true;
    }
    let kind = if cb.len() < ca.len() { "outputs-missing" } else if cb.len() > ca.len() { "extra-outputs" } else { "outputs-differ" };
    rep.violate("output-diverges-after-restore", &format!("{}{};{}", f.name, sig_extra, kind), format!("step #{} ({}): uninterrupted run emitted {:?}, restored run emitted {:?}", i, what, ca, cb));
    false
}

/// Run a case and attribute a divergence. A divergence in a run with sub-millisecond timestamps is blamed on
/// timestamp precision only if the very same case, with every timestamp truncated to whole milliseconds, does
/// not diverge; otherwise the divergence of the truncated case is reported under its feature signature.
fn judged_case(f: &Feature, events: &[Event], wm_ops: &[(usize, i64)], cuts: &[usize], file_store: bool, subms: bool, rep: &mut Report) -> bool {
    if !subms {
        return run_case(f, events, wm_ops, cuts, file_store, rep, "");
    }
    let mut sub = Report::default();
    let ok = run_case(f, events, wm_ops, cuts, file_store, &mut sub, "");
    rep.ops += sub.ops;
    for (k, v) in &sub.faults {
        *rep.faults.entry(k.clone()).or_insert(0) += v;
    }
    for (k, v) in &sub.probes {
        *rep.probes.entry(k.clone()).or_insert(0) += v;
    }
    rep.not_judged += sub.not_judged;
    if ok && sub.violations.is_empty() {
        for l in sub.trace {
            rep.log(l);
        }
        return true;
    }
    let trunc: Vec<Event> = events
        .iter()
        .map(|e| {
            let mut x = e.clone();
            x.timestamp = ts_ms((e.timestamp.timestamp_micros() - T0_S * 1_000_000).div_euclid(1000));
            x
        })
        .collect();
    let mut sub2 = Report::default();
    let ok2 = run_case(f, &trunc, wm_ops, cuts, file_store, &mut sub2, "");
    if ok2 && sub2.violations.is_empty() {
        for l in sub.trace {
            rep.log(l);
        }
        rep.log("(the same case with timestamps truncated to whole milliseconds does not diverge)");
        let d = sub.violations.first().map(|v| v.detail.clone()).unwrap_or_default();
        rep.violate("output-diverges-after-restore", "sub-millisecond-timestamps-truncated", format!("feature {}: {}", f.name, d));
    } else {
        rep.log("(diverges also with timestamps truncated to whole milliseconds; trace of that run:)");
        for l in sub2.trace {
            rep.log(l);
        }
        for v in sub2.violations {
            rep.violate(&v.class, &v.sig, v.detail);
        }
    }
    false
}

/// `.distinct()` remembers at most 100 000 keys (DISTINCT_LRU_CAPACITY, a constant of the engine) and evicts the least
/// recently seen one beyond that, so the recency ORDER of the remembered keys is state too. Only a run with more
/// distinct keys than the capacity reaches the eviction path: one long run per seed instead of many short ones.
fn run_distinct_lru(tape: &mut Tape, rep: &mut Report) {
    let f = Feature { name: "distinct-lru-eviction".into(), src: "stream S = E\n  .distinct(id)\n  .emit(id: id)\n".into(), types: vec!["E"], watermark_source: None, variable: None };
    let cap: i64 = 100_000;
    let before_cut = cap - tape.range(0, 40) as i64;      // distinct ids seen before the cut (at or just below the capacity)
    let mut ids: Vec<i64> = (0..before_cut).collect();
    // a few re-occurrences before the cut so that recency order differs from first-seen order
    for _ in 0..tape.range(0, 6) {
        ids.push(tape.draw(before_cut as u64) as i64);
    }
    let cut = ids.len();
    // after the cut: new ids (which evict), re-occurrences of the oldest ids and of ids seen just before the cut
    let mut next_new = before_cut;
    for _ in 0..tape.range(20, 120) {
        match tape.draw(4) {
            0 | 1 => { ids.push(next_new); next_new += 1; }
            2 => ids.push(tape.draw(60) as i64),
            _ => ids.push((before_cut - 1 - tape.draw(60) as i64).max(0)),
        }
    }
    let events: Vec<Event> = ids.iter().enumerate().map(|(i, id)| Event::new_at("E", ts_ms(i as i64)).with_field("id", *id)).collect();
    rep.config = format!("feature={} distinct_ids_before_cut={} cut_before_event=#{} events={} store=memory", f.name, before_cut, cut, events.len());
    rep.log(format!("config {}", rep.config));
    // only the tail is logged step by step (the first 100 000 events are all first occurrences)
    let mut sub = Report::default();
    let ok = run_case(&f, &events, &[], &[cut], false, &mut sub, "");
    rep.ops += sub.ops;
    for (k, v) in &sub.faults { *rep.faults.entry(k.clone()).or_insert(0) += v; }
    for l in sub.trace.iter().filter(|l| l.starts_with("---") || l.starts_with("!!")) { rep.log(l.clone()); }
    for v in sub.violations { rep.violate(&v.class, &v.sig, v.detail); }
    rep.probe("distinct-cache-went-past-its-capacity");
    rep.nontrivial = ok || rep.violated();
}

pub fn run(batch: &str, tape: &mut Tape, rep: &mut Report) {
    if batch == "distinct-lru-eviction" {
        return run_distinct_lru(tape, rep);
    }
    let only = match batch {
        "windows" => Some(0),
        "sequences" => Some(3),
        "joins-distinct-limit" => Some(6 + tape.draw(2)),
        "watermarks" => Some(8),
        "named-patterns" => Some(9),
        "variables" => Some(10),
        "sweep-all-cuts-patterns-variables" => Some(9 + tape.draw(2)),
        _ => None,
    };
    let f = gen_feature(tape, only);
    let subms = tape.chance(1, 2);
    let disorder = f.watermark_source.is_some() && tape.chance(1, 2);
    let n = tape.range(4, 30);
    let events = gen_events(tape, &f.types, n, subms, disorder);
    let file_store = tape.chance(1, 4);
    let mut wm_ops = vec![];
    if f.watermark_source.is_some() {
        for _ in 0..tape.draw(4) {
            wm_ops.push((tape.draw(n) as usize, tape.draw(40) as i64 * 500));
        }
    }
    if f.variable.is_some() {
        for _ in 0..tape.range(1, 3) {
            wm_ops.push((tape.draw(n) as usize, tape.draw(4) as i64));
        }
    }
    rep.config = format!("feature={} subms={} disorder={} store={} n={} program={:?}", f.name, subms, disorder, if file_store { "file" } else { "memory" }, n, f.src);
    rep.log(format!("config {}", rep.config));
    if batch.starts_with("sweep-all-cuts") {
        // every cut point of this history, one at a time
        for c in 1..n as usize {
            let mut sub = Report::default();
            let ok = judged_case(&f, &events, &wm_ops, &[c], false, subms, &mut sub);
            rep.ops += 1;
            *rep.faults.entry("crash-restore".into()).or_insert(0) += 1;
            if !ok || !sub.violations.is_empty() {
                rep.log(format!("--- sweep: cut before #{}", c));
                for l in sub.trace {
                    rep.log(l);
                }
                for v in sub.violations {
                    rep.violate(&v.class, &v.sig, v.detail);
                }
                return;
            }
        }
        rep.nontrivial = n >= 6;
        return;
    }
    let ncuts = tape.range(1, 3);
    let mut cuts: Vec<usize> = (0..ncuts).map(|_| tape.range(1, n - 1) as usize).collect();
    cuts.sort();
    cuts.dedup();
    rep.log(format!("cuts before events {:?}", cuts));
    judged_case(&f, &events, &wm_ops, &cuts, file_store, subms, rep);
    rep.state(vsim_core::rng::hash_str(&f.name));
    rep.nontrivial = rep.ops >= 4 && rep.trace.iter().filter(|l| l.contains("-> [\"")).count() >= 1;
}
