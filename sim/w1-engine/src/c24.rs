//! C24 — watermarks never regress per source; the effective watermark is the minimum over
//! sources that have one; late data is dropped only when later than the allowed lateness.

use crate::eng::*;
use chrono::Duration;
use std::collections::BTreeMap;
use varpulis_runtime::event::Event;
use varpulis_runtime::watermark::PerSourceWatermarkTracker;
use vsim_core::{Report, Tape};

const ETY: [&str; 3] = ["E1", "E2", "E3"];

fn check_tracker_state(cp: &varpulis_runtime::persistence::WatermarkCheckpoint, prev: &mut BTreeMap<String, i64>, rep: &mut Report, what: &str) {
    let base = T0_S * 1000;
    let mut min: Option<i64> = None;
    for (name, s) in &cp.sources {
        if let Some(w) = s.watermark_ms {
            let w = w - base;
            if let Some(p) = prev.get(name) {
                if w < *p {
                    rep.violate("source-watermark-regressed", "-", format!("after {}: watermark of source {} went from {} to {}", what, name, p, w));
                }
            }
            prev.insert(name.clone(), w);
            min = Some(min.map_or(w, |m: i64| m.min(w)));
        } else if prev.contains_key(name) {
            rep.violate("source-watermark-regressed", "lost", format!("after {}: source {} lost its watermark", what, name));
        }
    }
    let eff = cp.effective_watermark_ms.map(|e| e - base);
    if eff != min {
        let sig = match (eff, min) {
            (Some(e), Some(m)) if e > m => "above-min",
            (Some(_), Some(_)) => "below-min",
            _ => "presence",
        };
        rep.violate("effective-watermark-not-min-of-sources", sig, format!("after {}: effective watermark {:?}, minimum over sources with a watermark {:?} ({:?})", what, eff, min, prev));
    }
}

pub fn run(batch: &str, tape: &mut Tape, rep: &mut Report) {
    let nsrc = tape.range(2, 3) as usize;
    let ooo: Vec<i64> = (0..nsrc).map(|_| tape.draw(4) as i64 * 500).collect();
    let n = tape.range(4, 40);
    let level_engine = batch == "engine-gate" || (batch == "mixed" && tape.chance(1, 2));
    let lateness: Vec<i64> = (0..nsrc).map(|_| tape.draw(4) as i64 * 500).collect();
    rep.config = format!("level={} sources={} out_of_order_ms={:?} allowed_lateness_ms={:?} n={}", if level_engine { "engine" } else { "tracker" }, nsrc, ooo, lateness, n);
    rep.log(format!("config {}", rep.config));

    let mut clk: Vec<i64> = (0..nsrc).map(|_| tape.draw(6) as i64 * 500).collect();
    let mut prev: BTreeMap<String, i64> = BTreeMap::new();
    let mut dropped = 0u64;
    let mut processed = 0u64;

    if !level_engine {
        let mut tr = PerSourceWatermarkTracker::new();
        // some sources are registered up front, others only when they first speak (auto-registration)
        for s in 0..nsrc {
            if tape.chance(2, 3) {
                tr.register_source(ETY[s], Duration::milliseconds(ooo[s]));
            }
        }
        for i in 0..n {
            let s = tape.draw(nsrc as u64) as usize;
            if tape.chance(1, 8) {
                // upstream watermark announcement, possibly behind the source's current watermark
                let wm = (clk[s] + (tape.draw(9) as i64 - 4) * 500).max(0);
                tr.advance_source_watermark(ETY[s], ts_ms(wm));
                rep.fault("external-watermark");
                rep.log(format!("advance_source_watermark {} {}", ETY[s], wm));
                check_tracker_state(&tr.checkpoint(), &mut prev, rep, &format!("advance {} {}", ETY[s], wm));
                continue;
            }
            clk[s] += *tape.pick(&[0i64, 500, 500, 1000, 2000, 4000]);
            let mut ts = clk[s];
            if tape.chance(1, 4) {
                ts = (ts - tape.range(1, 10) as i64 * 500).max(0);
                rep.fault("straggler-delivered-late");
            }
            tr.observe_event(ETY[s], ts_ms(ts));
            rep.ops += 1;
            rep.log(format!("#{} observe {} ts={} -> effective {:?}", i, ETY[s], ts, tr.effective_watermark().map(|w| w.timestamp_millis() - T0_S * 1000)));
            check_tracker_state(&tr.checkpoint(), &mut prev, rep, &format!("observe {} ts={}", ETY[s], ts));
        }
        rep.nontrivial = prev.len() >= 2;
        return;
    }

    // engine level: one stateless stream per source with its own out-of-order bound and allowed lateness
    let mut src = String::new();
    // some sources get a second consuming stream with its own allowed lateness: an event may be dropped as late
    // only if it is beyond the allowed lateness of every stream consuming it, so the bound to judge is the maximum
    let mut consumers: Vec<u64> = vec![1; nsrc];
    let mut lateness = lateness;
    for s in 0..nsrc {
        src.push_str(&format!("stream S{} = {}\n  .watermark(out_of_order: {}ms)\n  .allowed_lateness({}ms)\n  .emit(seq: seq, src: \"{}\")\n", s + 1, ETY[s], ooo[s], lateness[s], ETY[s]));
        if tape.chance(1, 2) {
            let l2 = tape.draw(6) as i64 * 500;
            src.push_str(&format!("stream T{} = {}\n  .watermark(out_of_order: {}ms)\n  .allowed_lateness({}ms)\n  .emit(seq: seq, src: \"{}\")\n", s + 1, ETY[s], ooo[s], l2, ETY[s]));
            consumers[s] = 2;
            if l2 != lateness[s] { rep.probe("two-consumers-with-different-lateness"); }
            lateness[s] = lateness[s].max(l2);
        }
    }
    rep.log(format!("program {:?}", src));
    let mut en = Eng::new(&src).unwrap_or_else(|e| panic!("vsim harness: program rejected: {} :: {}", e, src));
    let mut idle: Option<usize> = if tape.chance(1, 3) { Some(tape.draw(nsrc as u64) as usize) } else { None };
    for i in 0..n as i64 {
        let mut s = tape.draw(nsrc as u64) as usize;
        if Some(s) == idle {
            // an idle source: speaks late or never
            if tape.chance(1, 6) {
                idle = None;
                rep.fault("idle-source-speaks");
            } else {
                s = (s + 1) % nsrc;
            }
        }
        clk[s] += *tape.pick(&[0i64, 500, 500, 1000, 2000, 4000]);
        let mut ts = clk[s];
        if tape.chance(1, 3) {
            ts = (ts - tape.range(1, 12) as i64 * 500).max(0);
            rep.fault("straggler-delivered-late");
        }
        let before = en.engine.create_checkpoint().watermark_state;
        let eff_before = before.as_ref().and_then(|w| w.effective_watermark_ms).map(|e| e - T0_S * 1000);
        let ev = Event::new_at(ETY[s], ts_ms(ts)).with_field("seq", i);
        let out = en.process(ev).expect("engine.process");
        rep.ops += 1;
        let was_processed = out.iter().any(|e| e.get_int("seq") == Some(i));
        rep.log(format!("#{} deliver {} ts={} (effective watermark before: {:?}) -> {}", i, ETY[s], ts, eff_before, if was_processed { "processed" } else { "dropped" }));
        if was_processed {
            processed += 1;
        } else {
            dropped += 1;
            // dropped as late only if below the effective watermark by more than the consuming stream's allowed lateness
            match eff_before {
                Some(w) if ts < w - lateness[s] => rep.probe("late-event-dropped"),
                Some(w) => {
                    let sig = if ts >= w { "not-behind-watermark" } else { "within-allowed-lateness" };
                    rep.violate("event-dropped-although-not-late", sig, format!("#{} {} ts={} dropped; effective watermark {} and allowed lateness {}ms (ts >= watermark - lateness = {})", i, ETY[s], ts, w, lateness[s], w - lateness[s]));
                }
                None => rep.violate("event-dropped-although-not-late", "no-watermark", format!("#{} {} ts={} dropped although no watermark exists yet", i, ETY[s], ts)),
            }
        }
        if let Some(w) = eff_before {
            if ts < w && ts >= w - lateness[s] && was_processed {
                rep.probe("late-but-within-lateness-processed");
            }
        }
        if out.len() as u64 > consumers[s] {
            rep.violate("event-processed-twice", "-", format!("#{}: {} outputs for {} consuming stream(s)", i, out.len(), consumers[s]));
        }
        if let Some(cp) = en.engine.create_checkpoint().watermark_state {
            check_tracker_state(&cp, &mut prev, rep, &format!("deliver {} ts={}", ETY[s], ts));
        } else {
            rep.violate("harness-no-tracker", "-", "engine has no watermark tracker although .watermark() was configured");
        }
    }
    rep.state(vsim_core::rng::mix(&[dropped.min(5), processed.min(5), prev.len() as u64]));
    rep.nontrivial = dropped >= 1 && processed >= 2 && prev.len() >= 2;
}
