//! C23 — hot reload keeps unchanged streams working and applies changed ones.
//! Three engines: A never reloaded (program P), B reloaded at a tape-chosen instant with P',
//! C freshly loaded with P' at that instant. Outputs are compared per stream.

use crate::eng::*;
use std::collections::BTreeMap;
use varpulis_runtime::event::Event;
use vsim_core::exec::block_on_ready;
use vsim_core::{Report, Tape};

#[derive(Clone, Debug, PartialEq)]
struct Spec {
    filter_thr: Option<i64>,
    filter_extra: bool,
    win: Option<(u64, &'static str)>, // (count size, stream name)
    seq_steps: Option<u64>,
    join_win: Option<u64>,
    // pieces of a stream's SOURCE clause (an edit confined to them changes no operator)
    /// merge of two filtered branches: threshold of the first branch
    merge_thr: Option<i64>,
    /// sequence: `all` on the first element, and a filter on the second step
    seq_all: bool,
    seq_b_thr: Option<i64>,
    /// join condition on `v` instead of `k`
    join_on_v: bool,
}

fn render(s: &Spec) -> (String, BTreeMap<String, String>) {
    let mut parts: BTreeMap<String, String> = BTreeMap::new();
    if let Some(t) = s.filter_thr {
        let extra = if s.filter_extra { "  .where(v < 4)\n" } else { "" };
        parts.insert("F".into(), format!("stream F = E\n  .where(v > {})\n{}  .emit(seq: seq)\n", t, extra));
    }
    if let Some((n, name)) = s.win {
        parts.insert(name.to_string(), format!("stream {} = E\n  .window({})\n  .aggregate(n: count(), lo: first(seq), hi: last(seq))\n  .emit(n: n, lo: lo, hi: hi)\n", name, n));
    }
    if let Some(k) = s.seq_steps {
        let third = if k == 3 { "  -> C as c\n" } else { "" };
        let emit = if k == 3 { "  .emit(sa: a.seq, sb: b.seq, sc: c.seq)\n" } else { "  .emit(sa: a.seq, sb: b.seq)\n" };
        let first = if s.seq_all { "all A as a" } else { "A as a" };
        let bstep = match s.seq_b_thr { Some(t) => format!("  -> B where v > {} as b\n", t), None => "  -> B as b\n".to_string() };
        parts.insert("Q".into(), format!("stream Q = {}\n{}{}{}", first, bstep, third, emit));
    }
    if let Some(w) = s.join_win {
        parts.insert("JA".into(), "stream JA = EA\n".into());
        parts.insert("JB".into(), "stream JB = EB\n".into());
        let on = if s.join_on_v { "JA.v == JB.v" } else { "JA.k == JB.k" };
        parts.insert("J".into(), format!("stream J = join(JA, JB)\n  .on({})\n  .window({}s)\n  .emit(k: JA.k, sa: JA.seq, sb: JB.seq)\n", on, w));
    }
    if let Some(t) = s.merge_thr {
        parts.insert("M".into(), format!("stream M = merge(\n    stream MH = E .where(v > {}),\n    stream ML = A .where(v < 3)\n)\n  .emit(seq: seq, v: v)\n", t));
    }
    // fixed order so that an edit of one stream does not reorder the others
    let order = ["F", "W", "W2", "Q", "JA", "JB", "J", "M"];
    let mut src = String::new();
    for o in order {
        if let Some(p) = parts.get(o) {
            src.push_str(p);
        }
    }
    (src, parts)
}

fn canon(e: &Event) -> String {
    let mut fields: Vec<String> = e.data.iter().map(|(k, v)| format!("{}={:?}", k, v)).collect();
    fields.sort();
    format!("{}{{{}}}", e.event_type, fields.join(","))
}

fn by_stream(out: &[Event], acc: &mut BTreeMap<String, Vec<String>>) {
    for e in out {
        acc.entry(e.event_type.to_string()).or_default().push(canon(e));
    }
}

pub fn run(batch: &str, tape: &mut Tape, rep: &mut Report) {
    // program P
    let mut p = Spec { filter_thr: None, filter_extra: false, win: None, seq_steps: None, join_win: None, merge_thr: None, seq_all: false, seq_b_thr: None, join_on_v: false };
    let nfeat = tape.range(1, 4);
    for _ in 0..nfeat {
        match tape.draw(5) {
            0 => p.filter_thr = Some(tape.range(1, 3) as i64),
            1 => p.win = Some((tape.range(2, 4), "W")),
            2 => { p.seq_steps = Some(tape.range(2, 3)); p.seq_all = tape.chance(1, 3); p.seq_b_thr = if tape.chance(1, 2) { Some(tape.range(1, 2) as i64) } else { None }; }
            3 => { p.join_win = Some(tape.range(1, 4)); p.join_on_v = tape.chance(1, 3); }
            _ => p.merge_thr = Some(tape.range(1, 2) as i64),
        }
    }
    // edit P -> P'
    let mut q = p.clone();
    let mut edit = "identity";
    if batch != "identity" {
        for _ in 0..4 {
            match tape.draw(10) {
                6 if p.merge_thr.is_some() => {
                    q.merge_thr = Some(if p.merge_thr == Some(1) { 3 } else { 1 });
                    edit = "merge-branch-threshold";
                }
                7 if p.seq_steps.is_some() => {
                    q.seq_all = !p.seq_all;
                    edit = "sequence-all-toggled";
                }
                8 if p.seq_steps.is_some() => {
                    q.seq_b_thr = match p.seq_b_thr { Some(1) => Some(2), Some(_) => None, None => Some(1) };
                    edit = "sequence-step-filter";
                }
                9 if p.join_win.is_some() => {
                    q.join_on_v = !p.join_on_v;
                    edit = "join-condition";
                }
                0 if p.filter_thr.is_some() => {
                    q.filter_thr = Some(if p.filter_thr == Some(1) { 3 } else { 1 });
                    edit = "filter-threshold";
                }
                1 if p.filter_thr.is_some() => {
                    q.filter_extra = !p.filter_extra;
                    edit = "filter-op-added";
                }
                2 if p.win.is_some() => {
                    let (n, nm) = p.win.unwrap();
                    q.win = Some((if n == 2 { 3 } else { 2 }, nm));
                    edit = "window-size";
                }
                3 if p.win.is_some() => {
                    let (n, _) = p.win.unwrap();
                    q.win = Some((n, "W2"));
                    edit = "stream-renamed";
                }
                4 if p.seq_steps.is_some() => {
                    q.seq_steps = Some(if p.seq_steps == Some(2) { 3 } else { 2 });
                    edit = "sequence-step";
                }
                5 if p.join_win.is_some() => {
                    q.join_win = Some(if p.join_win == Some(1) { 3 } else { 1 });
                    edit = "join-window";
                }
                _ => continue,
            }
            break;
        }
    }
    let (src_p, parts_p) = render(&p);
    let (src_q, parts_q) = render(&q);
    let n = tape.range(6, 30);
    let reload_at = tape.range(1, n - 1) as usize;
    let second_reload = if tape.chance(1, 5) { Some(tape.range(reload_at as u64, n - 1) as usize) } else { None };
    rep.config = format!("edit={} reload_before=#{} second_identity_reload={:?} n={} P={:?} P'={:?}", edit, reload_at, second_reload, n, src_p, src_q);
    rep.log(format!("config {}", rep.config));

    // events over every type the programs may consume
    let types = ["E", "A", "B", "C", "EA", "EB"];
    let mut t_ms = 0i64;
    let mut events = vec![];
    for seq in 0..n as i64 {
        t_ms += *tape.pick(&[0i64, 300, 500, 1000, 2000]);
        let ty = *tape.pick(&types);
        events.push(Event::new_at(ty, ts_ms(t_ms)).with_field("seq", seq).with_field("k", *tape.pick(&["x", "y"])).with_field("v", tape.range(1, 4) as i64));
    }

    let mut a = Eng::new(&src_p).unwrap_or_else(|e| panic!("vsim harness: P rejected: {} :: {}", e, src_p));
    let mut b = Eng::new(&src_p).expect("P");
    let prog_q = varpulis_parser::parse(&src_q).unwrap_or_else(|e| panic!("vsim harness: P' rejected: {} :: {}", e, src_q));
    let mut c: Option<Eng> = None;
    let (mut oa, mut ob, mut oc): (BTreeMap<String, Vec<String>>, BTreeMap<String, Vec<String>>, BTreeMap<String, Vec<String>>) = Default::default();
    for (i, ev) in events.iter().enumerate() {
        if i == reload_at {
            match b.engine.reload(&prog_q) {
                Ok(r) => rep.log(format!("--- reload before #{}: added={:?} removed={:?} updated={:?} preserved={:?}", i, r.streams_added, r.streams_removed, r.streams_updated, r.state_preserved)),
                Err(e) => {
                    rep.violate("reload-failed", edit, format!("reload with a valid program failed: {}", e));
                    return;
                }
            }
            rep.fault("reload");
            c = Some(Eng::new(&src_q).expect("P'"));
            // outputs before the reload are not part of the comparison
            oa.clear();
            ob.clear();
        }
        if Some(i) == second_reload && i > reload_at {
            if let Err(e) = b.engine.reload(&prog_q) {
                rep.violate("reload-failed", "identity", format!("second (identical) reload failed: {}", e));
                return;
            }
            rep.fault("second-identity-reload");
            rep.log(format!("--- second reload (same program) before #{}", i));
        }
        let xa = block_on_ready(a.engine.process(ev.clone())).map(|_| a.drain()).expect("A.process");
        let xb = block_on_ready(b.engine.process(ev.clone())).map(|_| b.drain()).expect("B.process");
        rep.ops += 1;
        rep.log(format!("#{} {}{{seq={},k={:?},v={:?}}} -> A:{:?} B:{:?}", i, ev.event_type, i, ev.get_str("k"), ev.get_int("v"), xa.iter().map(canon).collect::<Vec<_>>(), xb.iter().map(canon).collect::<Vec<_>>()));
        if i >= reload_at {
            by_stream(&xa, &mut oa);
            by_stream(&xb, &mut ob);
            if let Some(cc) = c.as_mut() {
                let xc = block_on_ready(cc.engine.process(ev.clone())).map(|_| cc.drain()).expect("C.process");
                by_stream(&xc, &mut oc);
            }
        } else if xa.iter().map(canon).collect::<Vec<_>>() != xb.iter().map(canon).collect::<Vec<_>>() {
            rep.violate("harness-nondeterministic-engine", "-", "two engines on the same program disagree before any reload");
            return;
        }
    }
    // ---- oracle, per stream, over everything emitted after the reload ----
    let empty: Vec<String> = vec![];
    let mut names: Vec<String> = parts_p.keys().chain(parts_q.keys()).cloned().collect();
    names.sort();
    names.dedup();
    let mut judged = 0u64;
    for name in names {
        let in_p = parts_p.get(&name);
        let in_q = parts_q.get(&name);
        let ga = oa.get(&name).unwrap_or(&empty);
        let gb = ob.get(&name).unwrap_or(&empty);
        let gc = oc.get(&name).unwrap_or(&empty);
        let kind = match name.as_str() { "F" => "filter", "W" | "W2" => "window", "Q" => "sequence", "J" => "join", "M" => "merge", _ => "passthrough" };
        match (in_p, in_q) {
            (Some(x), Some(y)) if x == y => {
                if edit == "identity" {
                    judged += 1;
                    if gb != ga {
                        rep.violate("identical-reload-changed-output", kind, format!("stream {}: never-reloaded engine emitted {:?}, reloaded engine emitted {:?}", name, ga, gb));
                    }
                } else {
                    // unchanged stream inside a changed program: must keep working — either with its state (== A) or like a fresh stream (== C)
                    judged += 1;
                    if gb != ga && gb != gc {
                        rep.violate("unchanged-stream-broken-by-reload", kind, format!("stream {} (definition unchanged): reloaded engine emitted {:?}; with state kept it would be {:?}, freshly loaded {:?}", name, gb, ga, gc));
                    }
                }
            }
            (_, Some(_)) => {
                // changed or added stream: behaves like a freshly loaded stream of the new program
                judged += 1;
                if gb != gc {
                    rep.violate("changed-stream-not-applied", &format!("{};{}", kind, edit), format!("stream {} (edit: {}): reloaded engine emitted {:?}, a fresh engine on the new program emitted {:?}", name, edit, gb, gc));
                }
            }
            (Some(_), None) => {
                judged += 1;
                if !gb.is_empty() {
                    rep.violate("removed-stream-still-emits", kind, format!("stream {} was removed by the reload but emitted {:?}", name, gb));
                }
            }
            _ => {}
        }
    }
    rep.state(vsim_core::rng::mix(&[vsim_core::rng::hash_str(edit), nfeat]));
    rep.nontrivial = judged >= 1 && (oa.values().any(|v| !v.is_empty()) || oc.values().any(|v| !v.is_empty()));
}
