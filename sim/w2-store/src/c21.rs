//! C21 — checkpoint storage recovers the newest complete checkpoint after any crash.

use super::*;
use std::collections::HashMap;
use varpulis_runtime::persistence::{Checkpoint, CheckpointConfig, CheckpointManager, FileStore, StateStore};

const ALTERED: u64 = u64::MAX;

#[derive(Clone, Debug)]
enum Op {
    Save,
    Restart,
    StrayTmp,
    /// corrupt the newest stored checkpoint file, then restart. kind: 0 truncate, 1 bit flip, 2 empty
    CorruptNewest(u64, u64),
}

fn mk_checkpoint(k: u64) -> Checkpoint {
    let mut metadata = HashMap::new();
    metadata.insert("k".to_string(), k.to_string());
    // sizes go up and down from one checkpoint to the next (a later checkpoint is often shorter than an earlier one)
    metadata.insert("pad".to_string(), "x".repeat(10 + (k as usize * 89) % 240));
    Checkpoint {
        id: 0,
        timestamp_ms: 0,
        events_processed: k,
        window_states: HashMap::new(),
        pattern_states: HashMap::new(),
        metadata,
        context_states: HashMap::new(),
    }
}

/// Ground truth: numeric-named files in <dir>/checkpoint → (id, Some(payload k) if readable).
fn disk_state(dir: &Path) -> Vec<(u64, Option<u64>)> {
    let mut v = vec![];
    if let Ok(rd) = std::fs::read_dir(dir.join("checkpoint")) {
        for e in rd.flatten() {
            if let Some(id) = e.file_name().to_str().and_then(|s| s.parse::<u64>().ok()) {
                let bytes = std::fs::read(e.path()).unwrap_or_default();
                // Some(k) = complete and as written; None = unreadable; Some(ALTERED) = still deserialises but content was changed by a bit flip
                let k = varpulis_runtime::codec::deserialize::<Checkpoint>(&bytes).ok().map(|c| if c.id == id && c.metadata.get("k").map(|s| s.as_str()) == Some(&c.events_processed.to_string()) && c.events_processed < ALTERED { c.events_processed } else { ALTERED });
                v.push((id, k));
            }
        }
    }
    v.sort();
    v
}

struct Sim<'a> {
    dir: PathBuf,
    cfg_max: usize,
    plan: Rc<RefCell<FsPlan>>,
    mgr: Option<CheckpointManager>,
    rep: &'a mut Report,
    next_k: u64,
    last_acked: Option<u64>,
    /// payloads whose save was interrupted (crash or injected error): may or may not be on disk
    maybe: Vec<u64>,
    /// ids deliberately damaged by the harness
    damaged: Vec<u64>,
    max_id_seen: u64,
    acked_id_max: u64,
    boot_max: u64,
    acked_saves: u64,
    dead: bool,
}

impl<'a> Sim<'a> {
    fn flush_log(&mut self) {
        let l: Vec<String> = self.plan.borrow_mut().log.drain(..).collect();
        for s in l {
            self.rep.log(s);
        }
    }
    fn note_ids(&mut self) {
        for (id, _) in disk_state(&self.dir) {
            self.max_id_seen = self.max_id_seen.max(id);
        }
    }

    /// New incarnation: open the store, build the manager, recover, and judge against the directory.
    fn restart(&mut self, why: &str) {
        self.mgr = None;
        let disk = disk_state(&self.dir);
        self.rep.log(format!("restart ({}) disk={:?}", why, disk));
        if disk.iter().any(|(_, k)| *k == Some(ALTERED)) {
            // a damaged file that still deserialises (no checksum in the format): "unreadable" does not apply, nothing is judged
            self.rep.not_judged += 1;
            self.rep.log("a damaged file still deserialises: this history is not judged further");
            self.dead = true;
            return;
        }
        // never a partial checkpoint under a final name
        for (id, k) in &disk {
            if k.is_none() && !self.damaged.contains(id) {
                self.rep.violate("partial-checkpoint-visible", "final-name", format!("checkpoint file {} is unreadable although it was never damaged by the simulator", id));
            }
        }
        let newest_readable = disk.iter().rev().find(|(_, k)| k.is_some()).copied();
        let newest_any = disk.last().copied();
        let newest_unreadable = matches!(newest_any, Some((_, None)));
        // durability of the acknowledged checkpoint
        if let Some(a) = self.last_acked {
            match newest_readable {
                Some((_, Some(k))) if k >= a => {}
                other => self.rep.violate("acknowledged-checkpoint-lost", "-", format!("last acknowledged payload k={} but newest readable on disk is {:?}", a, other)),
            }
        }
        if let Some((_, Some(k))) = newest_readable {
            if Some(k) != self.last_acked && !self.maybe.contains(&k) {
                self.rep.violate("unknown-checkpoint-on-disk", "-", format!("newest readable payload k={} was neither acknowledged last nor in flight", k));
            }
        }
        let store: Arc<dyn StateStore> = match FileStore::open(&self.dir) {
            Ok(s) => Arc::new(s),
            Err(e) => {
                self.rep.violate("harness-filestore-open", "-", format!("{}", e));
                self.dead = true;
                return;
            }
        };
        let cfg = CheckpointConfig { max_checkpoints: self.cfg_max, ..Default::default() };
        let plan = self.plan.clone();
        install_fs_hook(plan);
        match CheckpointManager::new(store, cfg) {
            Ok(m) => {
                match m.recover() {
                    Ok(got) => {
                        let got_k = got.as_ref().map(|c| (c.id, c.events_processed));
                        self.rep.log(format!("recover -> {:?}", got_k));
                        match (newest_readable, got_k) {
                            (Some((id, Some(k))), Some((gid, gk))) => {
                                if (id, k) != (gid, gk) {
                                    let cls = if gk < k { "recovered-stale-checkpoint" } else { "recovered-wrong-checkpoint" };
                                    self.rep.violate(cls, "-", format!("newest complete on disk is id={} k={}, recover returned id={} k={}", id, k, gid, gk));
                                }
                            }
                            (Some((id, Some(k))), None) => {
                                self.rep.violate("recover-returned-none", "-", format!("newest complete on disk is id={} k={}, recover returned None", id, k));
                            }
                            (None, Some((gid, gk))) => {
                                self.rep.violate("recovered-wrong-checkpoint", "-", format!("no readable checkpoint on disk but recover returned id={} k={}", gid, gk));
                            }
                            _ => {}
                        }
                    }
                    Err(e) => {
                        self.rep.log(format!("recover -> Err({})", e));
                        if newest_readable.is_some() {
                            let sig = if newest_unreadable { "newest-unreadable" } else { "other" };
                            self.rep.violate("recover-fails-though-readable-checkpoint-exists", sig, format!("recover() = Err({}) with disk {:?}", e, disk));
                        } else {
                            self.rep.not_judged += 1;
                        }
                    }
                }
                self.mgr = Some(m);
            }
            Err(e) => {
                self.rep.log(format!("CheckpointManager::new -> Err({})", e));
                if newest_readable.is_some() {
                    let sig = if newest_unreadable { "newest-unreadable" } else { "other" };
                    self.rep.violate("recover-fails-though-readable-checkpoint-exists", sig, format!("CheckpointManager::new = Err({}) with disk {:?}", e, disk));
                } else {
                    self.rep.not_judged += 1;
                }
                self.dead = true; // cannot continue this history without a manager
            }
        }
        // after a restart the in-flight set collapses to what is on disk
        if let Some((_, Some(k))) = newest_readable {
            self.last_acked = Some(k);
        } else {
            self.last_acked = None;
        }
        self.maybe.clear();
        self.note_ids();
        self.boot_max = disk.last().map(|(id, _)| *id).unwrap_or(0);
    }

    fn save(&mut self) {
        let k = self.next_k;
        self.next_k += 1;
        let cp = mk_checkpoint(k);
        let mut m = self.mgr.take().expect("manager");
        self.maybe.push(k);
        let r = crashable(|| {
            let r = m.checkpoint(cp);
            (m, r)
        });
        self.flush_log();
        match r {
            Err(()) => {
                self.rep.log(format!("save k={} -> CRASH", k));
                self.rep.fault("crash-in-save");
                self.restart("after crash");
            }
            Ok((m, Err(e))) => {
                self.rep.log(format!("save k={} -> Err({})", k, e));
                self.rep.fault("io-error-in-save");
                self.mgr = Some(m);
                self.note_ids();
            }
            Ok((m, Ok(()))) => {
                self.mgr = Some(m);
                self.acked_saves += 1;
                self.rep.ops += 1;
                let disk = disk_state(&self.dir);
                self.rep.log(format!("save k={} -> Ok disk={:?}", k, disk));
                // the acknowledged checkpoint is on disk, complete, and is the newest
                match disk.iter().rev().find(|(_, kk)| kk.is_some()) {
                    Some((id, Some(kk))) if *kk == k => {
                        // ids keep increasing: above every acknowledged id and above every id present when this incarnation started
                        if *id <= self.acked_id_max || *id <= self.boot_max {
                            let sig = if self.damaged.contains(id) { "reused-damaged-id" } else { "-" };
                            self.rep.violate("checkpoint-id-not-increasing", sig, format!("acknowledged checkpoint got id {} (highest acknowledged id {}, highest id on disk at start-up {})", id, self.acked_id_max, self.boot_max));
                        }
                        self.acked_id_max = self.acked_id_max.max(*id);
                    }
                    other => self.rep.violate("acknowledged-checkpoint-not-newest", "-", format!("after acknowledged save k={} the newest readable is {:?}", k, other)),
                }
                if disk.len() > self.cfg_max {
                    self.rep.violate("more-than-max-checkpoints-kept", "-", format!("{} checkpoint files kept, max_checkpoints={}", disk.len(), self.cfg_max));
                }
                self.last_acked = Some(k);
                self.maybe.clear();
                self.note_ids();
            }
        }
    }
}

fn exec(ops: &[Op], cfg_max: usize, faults: BTreeMap<u64, (FaultKind, u64)>, tag: &str, rep: &mut Report) -> u64 {
    let dir = scratch(tag);
    let plan = Rc::new(RefCell::new(FsPlan { at: faults, ..Default::default() }));
    let mut sim = Sim { dir: dir.clone(), cfg_max, plan: plan.clone(), mgr: None, rep, next_k: 1, last_acked: None, maybe: vec![], damaged: vec![], max_id_seen: 0, acked_id_max: 0, boot_max: 0, acked_saves: 0, dead: false };
    sim.restart("boot");
    for op in ops {
        if sim.dead {
            break;
        }
        match op {
            Op::Save => sim.save(),
            Op::Restart => {
                sim.rep.fault("clean-restart");
                sim.restart("clean")
            }
            Op::StrayTmp => {
                let p = dir.join("checkpoint");
                let _ = std::fs::create_dir_all(&p);
                let n = sim.max_id_seen + 1;
                // what a crash between the temp-file write and the rename leaves behind: sometimes short, sometimes
                // longer than the checkpoint that will reuse the name
                let junk: Vec<u8> = if n % 2 == 0 { b"garbage-from-an-earlier-crash".to_vec() } else { b"leftover-of-an-interrupted-larger-checkpoint ".repeat(40) };
                let _ = std::fs::write(p.join(format!("{}.tmp", n)), junk);
                sim.rep.fault("stray-tmp-file");
                sim.rep.log(format!("stray temp file {}.tmp", n));
            }
            Op::CorruptNewest(kind, frac) => {
                let disk = disk_state(&dir);
                if let Some((id, _)) = disk.last() {
                    let p = dir.join("checkpoint").join(id.to_string());
                    let mut bytes = std::fs::read(&p).unwrap_or_default();
                    let what = match kind {
                        0 => {
                            let n = (bytes.len() as u64 * frac / 1000) as usize;
                            bytes.truncate(n.min(bytes.len().saturating_sub(1)));
                            format!("truncated to {} bytes", bytes.len())
                        }
                        1 => {
                            if !bytes.is_empty() {
                                let i = (bytes.len() as u64 * frac / 1001) as usize;
                                bytes[i] ^= 0x5a;
                                format!("byte {} flipped", i)
                            } else {
                                "empty already".into()
                            }
                        }
                        _ => {
                            bytes.clear();
                            "emptied".into()
                        }
                    };
                    let _ = std::fs::write(&p, &bytes);
                    sim.damaged.push(*id);
                    sim.rep.fault("newest-file-corrupted");
                    sim.rep.log(format!("corrupt newest checkpoint file {}: {}", id, what));
                    // acknowledged data destroyed on purpose: durability is now owed only to what is still readable
                    let after = disk_state(&dir);
                    let still = after.iter().rev().find(|(_, k)| k.is_some()).and_then(|(_, k)| *k);
                    if after.last().map(|(_, k)| k.is_none()).unwrap_or(false) {
                        if still.is_some() {
                            sim.rep.probe("newest-unreadable-with-older-readable");
                        }
                    } else {
                        sim.rep.probe("corruption-still-deserialises");
                    }
                    sim.last_acked = still;
                    sim.maybe.clear();
                    sim.restart("after corruption");
                }
            }
        }
    }
    if sim.acked_saves >= 2 && !plan.borrow().fired.is_empty() {
        sim.rep.nontrivial = true;
    }
    for f in &plan.borrow().fired {
        let kind = if f.contains("TornCrash") { "torn-write-crash" } else if f.contains("IoError") { "io-error" } else { "crash" };
        sim.rep.fault(kind);
        if f.contains("put.rename") { sim.rep.probe("fault-between-write-and-rename"); }
        if f.contains("delete.remove") { sim.rep.probe("fault-during-prune"); }
        if f.contains("put.done") { sim.rep.probe("fault-between-save-and-prune"); }
    }
    let seen = plan.borrow().seen;
    clear_fs_hook();
    let _ = std::fs::remove_dir_all(&dir);
    seen
}

pub fn run(batch: &str, tape: &mut Tape, rep: &mut Report) {
    let cfg_max = tape.range(1, 3) as usize;
    let nops = tape.range(2, 8);
    let mut ops = vec![];
    let mut saves = 0;
    // a fifth of the histories start from a store that already went through 8-11 checkpoints, so that ids cross
    // from one digit to two (names like "9" and "10" sort differently as text and as numbers)
    if batch != "sweep" && tape.chance(1, 5) {
        for _ in 0..tape.range(8, 11) {
            ops.push(Op::Save);
            saves += 1;
        }
    }
    for _ in 0..nops {
        let o = match tape.draw(10) {
            0 => Op::Restart,
            1 => Op::StrayTmp,
            2 | 3 if batch == "corrupt" && saves > 0 => Op::CorruptNewest(tape.draw(3), tape.draw(1000)),
            _ => {
                saves += 1;
                Op::Save
            }
        };
        ops.push(o);
    }
    rep.config = format!("max_checkpoints={} ops={:?} batch={}", cfg_max, ops, batch);
    rep.log(format!("config {}", rep.config));
    match batch {
        "faultfree" => {
            exec(&ops, cfg_max, BTreeMap::new(), "c21", rep);
            rep.nontrivial = saves >= 2;
        }
        "sweep" => {
            let mut dry = Report::default();
            let n = exec(&ops, cfg_max, BTreeMap::new(), "c21", &mut dry);
            rep.log(format!("sweep over {} fault points x {{crash, torn}}", n));
            for c in 0..n {
                for kind in [(FaultKind::Crash, 0u64), (FaultKind::TornCrash, 500)] {
                    if kind.0 == FaultKind::TornCrash && c % 4 != 1 {
                        // torn writes only differ from plain crashes at put.write points; cheap filter: try all anyway every 4th
                    }
                    let mut f = BTreeMap::new();
                    f.insert(c, kind);
                    let mut sub = Report::default();
                    exec(&ops, cfg_max, f, "c21", &mut sub);
                    rep.ops += 1;
                    for (k, v) in sub.faults { *rep.faults.entry(k).or_insert(0) += v; }
                    for (k, v) in sub.probes { *rep.probes.entry(k).or_insert(0) += v; }
                    if !sub.violations.is_empty() {
                        rep.log(format!("--- sweep point {} {:?}:", c, kind.0));
                        for l in sub.trace { rep.log(l); }
                        for v in sub.violations { rep.violate(&v.class, &v.sig, v.detail); }
                        return;
                    }
                }
            }
            rep.nontrivial = saves >= 2 && n > 0;
        }
        _ => {
            let allow_err = true;
            let nf = tape.range(1, 2);
            let mut f = BTreeMap::new();
            for _ in 0..nf {
                // a save touches ~4-9 fault points; aim inside the history
                let at = tape.draw((saves.max(1) as u64) * 7 + 2);
                f.insert(at, draw_kind(tape, allow_err));
            }
            exec(&ops, cfg_max, f, "c21", rep);
        }
    }
}
