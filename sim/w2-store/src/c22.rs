//! C22 — tenant/pipeline metadata survive restarts exactly as acknowledged.
//! C28 — tenants cannot see or affect each other's pipelines (monitored in the same histories).

use super::*;
use serde_json::{json, Value};
use std::time::Duration;
use varpulis_cli::api::api_routes;
use varpulis_runtime::persistence::{FileStore, StateStore};
use varpulis_runtime::tenant::{shared_tenant_manager_with_store, SharedTenantManager};
use warp::Filter;

const ADMIN: &str = "sim-admin-key";
const PROGS: [&str; 5] = [
    "stream A = SensorReading .where(x > 1)",
    "stream B = Events .where(y > 10)",
    "stream C = Events .where(y > 20)",
    "stream A = SensorReading .where(x > 1)\nstream D = Events .where(y > 5)",
    "stream E = SensorReading .where(x > 100)",
];

/// Reload requests the server must refuse: a text that does not parse, and one that parses but that the engine
/// rejects when it applies it (assignment to an immutable variable). A refused reload changes nothing, now or after a restart.
const BAD_PROGS: [&str; 2] = [
    "stream = = broken (",
    "let limit: int = 10\nlimit := 20\nstream F = Events .where(y > limit)",
];

#[derive(Clone, Debug, PartialEq)]
struct MP {
    id: String,
    name: String,
    source: String,
}
#[derive(Clone, Debug, PartialEq)]
struct MT {
    id: String,
    name: String,
    key: String,
    pipes: BTreeMap<usize, MP>,
}

#[derive(Clone, Debug)]
enum Op {
    CreateTenant(usize),
    DeleteTenant(usize),
    Deploy(usize, usize, usize),
    DeletePipe(usize, usize),
    Reload(usize, usize, usize),
    /// tenant `caller` uses its own key on an endpoint; `victim`/pslot name the pipeline id used (victim == caller: own request)
    Req { kind: usize, caller: usize, victim: usize, pslot: usize },
    /// request with a key that belongs to nobody
    BadKey { kind: usize, victim: usize, pslot: usize },
}

const KINDS: [&str; 11] = ["list", "get", "inject", "inject-batch", "reload", "checkpoint", "restore", "delete", "metrics", "usage", "logs"];

type Routes = warp::filters::BoxedFilter<(warp::reply::Response,)>;

struct Server {
    rt: tokio::runtime::Runtime,
    mgr: SharedTenantManager,
    routes: Routes,
}

struct Resp {
    status: u16,
    body: String,
    json: Value,
    timed_out: bool,
}

impl Server {
    fn boot(dir: &Path) -> Server {
        let rt = tokio::runtime::Builder::new_current_thread().enable_time().start_paused(true).build().expect("rt");
        let store: Arc<dyn StateStore> = Arc::new(FileStore::open(dir).expect("FileStore::open"));
        let mgr = shared_tenant_manager_with_store(store);
        let routes = api_routes(mgr.clone(), Some(ADMIN.to_string())).map(|r| warp::Reply::into_response(r)).boxed();
        Server { rt, mgr, routes }
    }
    fn call(&self, method: &str, path: &str, key: Option<(&str, &str)>, body: Option<Value>) -> Resp {
        let mut rq = warp::test::request().method(method).path(path);
        if let Some((h, v)) = key {
            rq = rq.header(h, v);
        }
        if let Some(b) = &body {
            rq = rq.json(b);
        }
        let routes = self.routes.clone();
        let r = self.rt.block_on(async move { tokio::time::timeout(Duration::from_secs(5), rq.reply(&routes)).await });
        match r {
            Ok(resp) => {
                let body = String::from_utf8_lossy(resp.body()).to_string();
                let json = serde_json::from_str(&body).unwrap_or(Value::Null);
                Resp { status: resp.status().as_u16(), body, json, timed_out: false }
            }
            Err(_) => Resp { status: 200, body: String::new(), json: Value::Null, timed_out: true },
        }
    }
    /// Observable state of every tenant, read directly from the manager.
    fn observe(&self) -> BTreeMap<String, Value> {
        let mgr = self.mgr.clone();
        self.rt.block_on(async move {
            let m = mgr.read().await;
            let mut out = BTreeMap::new();
            for t in m.list_tenants() {
                let mut pipes = BTreeMap::new();
                for (pid, p) in &t.pipelines {
                    let cp = p.engine.lock().await.create_checkpoint();
                    pipes.insert(pid.clone(), json!({"name": p.name, "source": p.source, "status": p.status.to_string(), "engine": serde_json::to_value(&cp).unwrap_or(Value::Null)}));
                }
                out.insert(
                    t.id.to_string(),
                    json!({"name": t.name, "key": t.api_key, "events_processed": t.usage.events_processed, "output_events_emitted": t.usage.output_events_emitted,
                           "active_pipelines": t.usage.active_pipelines, "pipelines": pipes}),
                );
            }
            out
        })
    }
}

fn meta_of(obs: &BTreeMap<String, Value>) -> BTreeMap<String, (String, String, BTreeMap<String, (String, String, String)>)> {
    let mut out = BTreeMap::new();
    for (tid, v) in obs {
        let mut pipes = BTreeMap::new();
        for (pid, p) in v["pipelines"].as_object().into_iter().flatten() {
            pipes.insert(pid.clone(), (p["name"].as_str().unwrap_or("").to_string(), p["source"].as_str().unwrap_or("").to_string(), p["status"].as_str().unwrap_or("").to_string()));
        }
        out.insert(tid.clone(), (v["name"].as_str().unwrap_or("").to_string(), v["key"].as_str().unwrap_or("").to_string(), pipes));
    }
    out
}

struct Sim<'a> {
    prop: &'a str,
    dir: PathBuf,
    plan: Rc<RefCell<FsPlan>>,
    srv: Option<Server>,
    model: BTreeMap<usize, MT>,
    gen: u64,
    acked: u64,
    foreign_judged: u64,
    crashes_in_write_ops: u64,
    rep: &'a mut Report,
}

impl<'a> Sim<'a> {
    fn v22(&mut self, class: &str, sig: &str, detail: String) {
        if self.prop == "C22" {
            self.rep.violate(class, sig, detail);
        } else {
            self.rep.log(format!("(C22 oracle, not this property) {} {}: {}", class, sig, detail));
        }
    }
    fn v28(&mut self, class: &str, sig: &str, detail: String) {
        if self.prop == "C28" {
            self.rep.violate(class, sig, detail);
        } else {
            self.rep.log(format!("(C28 oracle, not this property) {} {}: {}", class, sig, detail));
        }
    }
    fn flush_log(&mut self) {
        let l: Vec<String> = self.plan.borrow_mut().log.drain(..).collect();
        for s in l {
            self.rep.log(s);
        }
    }

    /// Compare the recovered manager with the model; `inflight` is the operation that was interrupted.
    fn recover_and_judge(&mut self, inflight: Option<&Op>, new_name: &str, new_src: &str) {
        clear_fs_hook();
        let srv = Server::boot(&self.dir);
        install_fs_hook(self.plan.clone());
        let r = meta_of(&srv.observe());
        self.srv = Some(srv);
        let mut m: BTreeMap<String, (usize, MT)> = BTreeMap::new();
        for (slot, t) in &self.model {
            m.insert(t.id.clone(), (*slot, t.clone()));
        }
        let mut explained = true;
        let mut why = String::new();
        // tenants missing after recovery
        for (tid, (slot, t)) in &m {
            if !r.contains_key(tid) {
                match inflight {
                    Some(Op::DeleteTenant(s)) if s == slot => {}
                    _ => {
                        explained = false;
                        why = format!("acknowledged tenant '{}' ({}) is missing after recovery", t.name, tid);
                    }
                }
            }
        }
        // tenants present after recovery that were never acknowledged
        let extra: Vec<&String> = r.keys().filter(|k| !m.contains_key(*k)).collect();
        for tid in &extra {
            let (name, _key, pipes) = &r[*tid];
            match inflight {
                Some(Op::CreateTenant(_)) if extra.len() == 1 && name == new_name && pipes.is_empty() => {}
                _ => {
                    explained = false;
                    why = format!("tenant '{}' ({}) exists after recovery but was never acknowledged (or was acknowledged deleted)", name, tid);
                }
            }
        }
        // common tenants
        for (tid, (slot, t)) in &m {
            let Some((name, key, pipes)) = r.get(tid) else { continue };
            if name != &t.name || key != &t.key {
                explained = false;
                why = format!("tenant {} recovered with name/key ({},{}) but acknowledged ({},{})", tid, name, key, t.name, t.key);
            }
            let mp: BTreeMap<&String, (&usize, &MP)> = t.pipes.iter().map(|(ps, p)| (&p.id, (ps, p))).collect();
            for (pid, (ps, p)) in &mp {
                match pipes.get(*pid) {
                    None => match inflight {
                        Some(Op::DeletePipe(ts, pslot)) if ts == slot && pslot == *ps => {}
                        Some(Op::DeleteTenant(ts)) if ts == slot => {}
                        _ => {
                            explained = false;
                            why = format!("acknowledged pipeline '{}' ({}) of tenant '{}' is missing after recovery", p.name, pid, t.name);
                        }
                    },
                    Some((pn, psrc, pst)) => {
                        let reload_ok = matches!(inflight, Some(Op::Reload(ts, pslot, _)) if ts == slot && pslot == *ps) && psrc == new_src;
                        if pn != &p.name || (psrc != &p.source && !reload_ok) {
                            explained = false;
                            why = format!("pipeline {} recovered as (name={:?}, source={:?}) but acknowledged (name={:?}, source={:?})", pid, pn, psrc, p.name, p.source);
                        }
                        if pst != "running" {
                            explained = false;
                            why = format!("pipeline {} recovered with status {:?}, acknowledged status running", pid, pst);
                        }
                    }
                }
            }
            let extra_p: Vec<&String> = pipes.keys().filter(|k| !mp.contains_key(*k)).collect();
            for pid in &extra_p {
                let (pn, psrc, pst) = &pipes[*pid];
                match inflight {
                    Some(Op::Deploy(ts, _, _)) if ts == slot && extra_p.len() == 1 && pn == new_name && psrc == new_src && pst == "running" => {}
                    _ => {
                        explained = false;
                        why = format!("pipeline '{}' ({}) of tenant '{}' exists after recovery but was never acknowledged (or was acknowledged deleted)", pn, pid, t.name);
                    }
                }
            }
        }
        self.rep.log(format!("recovered: {:?}", r.iter().map(|(t, (n, _, p))| format!("{}:{}:{}p", &t[..6.min(t.len())], n, p.len())).collect::<Vec<_>>()));
        if !explained {
            let sig = match inflight {
                Some(Op::CreateTenant(_)) => "inflight=create-tenant",
                Some(Op::DeleteTenant(_)) => "inflight=delete-tenant",
                Some(Op::Deploy(..)) => "inflight=deploy",
                Some(Op::DeletePipe(..)) => "inflight=delete-pipeline",
                Some(Op::Reload(..)) => "inflight=reload",
                _ => "inflight=none",
            };
            self.v22("recovered-state-differs-from-acknowledged", sig, why);
        }
        // adopt the recovered state as the new acknowledged state (ids of an in-flight create/deploy become known)
        let mut newm: BTreeMap<usize, MT> = BTreeMap::new();
        for (tid, (name, key, pipes)) in &r {
            let slot = m.get(tid).map(|(s, _)| *s).or(match inflight {
                Some(Op::CreateTenant(s)) => Some(*s),
                _ => None,
            });
            let Some(slot) = slot else { continue };
            let old = m.get(tid).map(|(_, t)| t.clone());
            let mut mp = BTreeMap::new();
            for (pid, (pn, psrc, _)) in pipes {
                let ps = old.as_ref().and_then(|t| t.pipes.iter().find(|(_, p)| &p.id == pid).map(|(s, _)| *s)).or(match inflight {
                    Some(Op::Deploy(_, ps, _)) => Some(*ps),
                    _ => None,
                });
                if let Some(ps) = ps {
                    mp.insert(ps, MP { id: pid.clone(), name: pn.clone(), source: psrc.clone() });
                }
            }
            newm.insert(slot, MT { id: tid.clone(), name: name.clone(), key: key.clone(), pipes: mp });
        }
        self.model = newm;
    }

    fn isolation_guard<T>(&mut self, caller_tid: Option<&str>, what: &str, f: impl FnOnce(&Server) -> T) -> Option<T> {
        // every tenant other than the caller must be bit-identical before and after
        let before = self.srv.as_ref().unwrap().observe();
        let r = crashable(|| f(self.srv.as_ref().unwrap()));
        match r {
            Err(()) => None,
            Ok(v) => {
                let after = self.srv.as_ref().unwrap().observe();
                for (tid, b) in &before {
                    if Some(tid.as_str()) == caller_tid {
                        continue;
                    }
                    match after.get(tid) {
                        Some(a) if a == b => {}
                        other => {
                            let what_changed = match other {
                                None => "tenant disappeared".to_string(),
                                Some(a) => diff_keys(b, a),
                            };
                            let kind = what.split_whitespace().next().unwrap_or("?").to_string();
                            self.v28("other-tenant-state-changed", &kind, format!("request [{}] by tenant {:?} changed tenant {}: {}", what, caller_tid, tid, what_changed));
                        }
                    }
                }
                Some(v)
            }
        }
    }

    fn exec_op(&mut self, op: &Op) -> bool {
        // returns false if the run must stop (crash handled inside)
        self.gen += 1;
        let gen = self.gen;
        match op.clone() {
            Op::CreateTenant(slot) => {
                if self.model.contains_key(&slot) {
                    return true;
                }
                let name = format!("tenant-{}-g{}", slot, gen);
                let body = json!({"name": name});
                let r = crashable(|| self.srv.as_ref().unwrap().call("POST", "/api/v1/tenants", Some(("x-admin-key", ADMIN)), Some(body)));
                self.flush_log();
                match r {
                    Err(()) => {
                        self.rep.log(format!("create tenant '{}' -> CRASH", name));
                        self.after_crash(op, &name, "");
                    }
                    Ok(resp) => {
                        self.rep.log(format!("create tenant '{}' -> {}", name, resp.status));
                        if resp.status / 100 == 2 {
                            self.acked += 1;
                            let id = resp.json["id"].as_str().unwrap_or("").to_string();
                            let key = resp.json["api_key"].as_str().unwrap_or("").to_string();
                            self.model.insert(slot, MT { id, name, key, pipes: BTreeMap::new() });
                        }
                    }
                }
            }
            Op::DeleteTenant(slot) => {
                let Some(t) = self.model.get(&slot).cloned() else { return true };
                let path = format!("/api/v1/tenants/{}", t.id);
                let r = crashable(|| self.srv.as_ref().unwrap().call("DELETE", &path, Some(("x-admin-key", ADMIN)), None));
                self.flush_log();
                match r {
                    Err(()) => {
                        self.rep.log(format!("delete tenant '{}' -> CRASH", t.name));
                        self.after_crash(op, "", "");
                    }
                    Ok(resp) => {
                        self.rep.log(format!("delete tenant '{}' -> {}", t.name, resp.status));
                        if resp.status / 100 == 2 {
                            self.acked += 1;
                            self.model.remove(&slot);
                        }
                    }
                }
            }
            Op::Deploy(ts, ps, prog) => {
                let Some(t) = self.model.get(&ts).cloned() else { return true };
                if t.pipes.contains_key(&ps) {
                    return true;
                }
                let name = format!("p{}-g{}", ps, gen);
                let src = PROGS[prog % PROGS.len()].to_string();
                let body = json!({"name": name, "source": src});
                let what = format!("deploy '{}' by {}", name, t.name);
                let r = self.isolation_guard(Some(&t.id), &what, |s| s.call("POST", "/api/v1/pipelines", Some(("x-api-key", &t.key)), Some(body)));
                self.flush_log();
                match r {
                    None => {
                        self.rep.log(format!("{} -> CRASH", what));
                        self.after_crash(op, &name, &src);
                    }
                    Some(resp) => {
                        self.rep.log(format!("{} -> {}", what, resp.status));
                        if resp.status / 100 == 2 {
                            self.acked += 1;
                            let id = resp.json["id"].as_str().unwrap_or("").to_string();
                            self.model.get_mut(&ts).unwrap().pipes.insert(ps, MP { id, name, source: src });
                        } else {
                            self.v22("valid-management-request-refused", "deploy", format!("{} -> {} {}", what, resp.status, resp.body));
                        }
                    }
                }
            }
            Op::DeletePipe(ts, ps) => {
                let Some(t) = self.model.get(&ts).cloned() else { return true };
                let Some(p) = t.pipes.get(&ps).cloned() else { return true };
                let path = format!("/api/v1/pipelines/{}", p.id);
                let what = format!("delete pipeline '{}' by {}", p.name, t.name);
                let r = self.isolation_guard(Some(&t.id), &what, |s| s.call("DELETE", &path, Some(("x-api-key", &t.key)), None));
                self.flush_log();
                match r {
                    None => {
                        self.rep.log(format!("{} -> CRASH", what));
                        self.after_crash(op, "", "");
                    }
                    Some(resp) => {
                        self.rep.log(format!("{} -> {}", what, resp.status));
                        if resp.status / 100 == 2 {
                            self.acked += 1;
                            self.model.get_mut(&ts).unwrap().pipes.remove(&ps);
                        } else {
                            self.v22("valid-management-request-refused", "delete-pipeline", format!("{} -> {} {}", what, resp.status, resp.body));
                        }
                    }
                }
            }
            Op::Reload(ts, ps, prog) => {
                let Some(t) = self.model.get(&ts).cloned() else { return true };
                let Some(p) = t.pipes.get(&ps).cloned() else { return true };
                let bad = prog >= PROGS.len();
                let src = if bad { BAD_PROGS[if prog == PROGS.len() { 0 } else { 1 }].to_string() } else { PROGS[prog].to_string() };
                let path = format!("/api/v1/pipelines/{}/reload", p.id);
                let what = if bad { format!("reload pipeline '{}' by {} with a program the server must refuse ({})", p.name, t.name, if prog == PROGS.len() { "does not parse" } else { "parses, rejected by the engine" }) } else { format!("reload pipeline '{}' by {} -> prog{}", p.name, t.name, prog) };
                let body = json!({"source": src});
                let r = self.isolation_guard(Some(&t.id), &what, |s| s.call("POST", &path, Some(("x-api-key", &t.key)), Some(body)));
                self.flush_log();
                match r {
                    None => {
                        self.rep.log(format!("{} -> CRASH", what));
                        self.after_crash(op, "", &src);
                    }
                    Some(resp) => {
                        self.rep.log(format!("{} -> {}", what, resp.status));
                        if resp.status / 100 == 2 {
                            self.acked += 1;
                            self.model.get_mut(&ts).unwrap().pipes.get_mut(&ps).unwrap().source = src;
                        } else if bad {
                            self.rep.probe("reload-refused-by-the-server");
                        } else {
                            self.v22("valid-management-request-refused", "reload", format!("{} -> {} {}", what, resp.status, resp.body));
                        }
                    }
                }
            }
            Op::Req { kind, caller, victim, pslot } => self.request(kind, Some(caller), victim, pslot),
            Op::BadKey { kind, victim, pslot } => self.request(kind, None, victim, pslot),
        }
        true
    }

    fn after_crash(&mut self, op: &Op, new_name: &str, new_src: &str) {
        self.rep.fault("crash-inside-operation");
        self.crashes_in_write_ops += 1;
        self.srv = None;
        self.recover_and_judge(Some(op), new_name, new_src);
    }

    fn request(&mut self, kind: usize, caller: Option<usize>, victim: usize, pslot: usize) {
        let kind_s = KINDS[kind % KINDS.len()];
        let (caller_t, key) = match caller {
            Some(c) => match self.model.get(&c) {
                Some(t) => (Some(t.clone()), t.key.clone()),
                None => return,
            },
            None => (None, String::new()),
        };
        let Some(vt) = self.model.get(&victim).cloned() else { return };
        // a key that belongs to nobody: unrelated, empty, or a near miss of the victim's key (truncated / extended)
        let key = if caller.is_some() { key } else {
            match (kind * 7 + pslot * 3 + victim) % 4 {
                0 => "00000000-0000-4000-8000-000000000000".to_string(),
                1 => String::new(),
                2 => vt.key[..vt.key.len() / 2].to_string(),
                _ => format!("{}0", vt.key),
            }
        };
        let foreign = caller_t.as_ref().map(|c| c.id != vt.id).unwrap_or(true);
        let pid = match vt.pipes.get(&pslot) {
            Some(p) => p.id.clone(),
            None => match vt.pipes.values().next() {
                Some(p) => p.id.clone(),
                None => return,
            },
        };
        // a checkpoint body for restore: taken from the victim's own engine (what an attacker would want to push back)
        let cp_body = {
            let obs = self.srv.as_ref().unwrap().observe();
            obs.get(&vt.id).and_then(|t| t["pipelines"].get(&pid)).map(|p| p["engine"].clone()).unwrap_or(Value::Null)
        };
        let (method, path, body): (&str, String, Option<Value>) = match kind_s {
            "list" => ("GET", "/api/v1/pipelines".into(), None),
            "get" => ("GET", format!("/api/v1/pipelines/{}", pid), None),
            "inject" => ("POST", format!("/api/v1/pipelines/{}/events", pid), Some(json!({"event_type": "Events", "fields": {"y": 50, "x": 7}}))),
            "inject-batch" => ("POST", format!("/api/v1/pipelines/{}/events-batch", pid), Some(json!({"events": [{"event_type": "Events", "fields": {"y": 50}}, {"event_type": "SensorReading", "fields": {"x": 500}}]}))),
            "reload" => ("POST", format!("/api/v1/pipelines/{}/reload", pid), Some(json!({"source": "stream Z = Events .where(y > 0)"}))),
            "checkpoint" => ("POST", format!("/api/v1/pipelines/{}/checkpoint", pid), None),
            "restore" => ("POST", format!("/api/v1/pipelines/{}/restore", pid), Some(json!({"checkpoint": cp_body}))),
            "delete" => ("DELETE", format!("/api/v1/pipelines/{}", pid), None),
            "metrics" => ("GET", format!("/api/v1/pipelines/{}/metrics", pid), None),
            "usage" => ("GET", "/api/v1/usage".into(), None),
            _ => ("GET", format!("/api/v1/pipelines/{}/logs", pid), None),
        };
        // own requests that mutate management state are issued through the management ops, not here
        if !foreign && matches!(kind_s, "reload" | "delete" | "logs") {
            return;
        }
        let what = format!("{} {} pid-of={} caller={}", kind_s, if foreign { "FOREIGN" } else { "own" }, vt.name, caller_t.as_ref().map(|c| c.name.clone()).unwrap_or_else(|| "<bad key>".into()));
        let caller_id = caller_t.as_ref().map(|c| c.id.clone());
        let r = self.isolation_guard(caller_id.as_deref(), &what, |s| s.call(method, &path, Some(("x-api-key", &key)), body));
        self.flush_log();
        let Some(resp) = r else {
            self.rep.log(format!("{} -> CRASH", what));
            self.srv = None;
            self.recover_and_judge(None, "", "");
            return;
        };
        self.rep.log(format!("{} -> {}{}", what, resp.status, if resp.timed_out { " (stream stayed open)" } else { "" }));
        self.rep.ops += 1;
        // a response to one tenant never mentions another tenant's ids or key
        for (_, other) in self.model.clone() {
            if caller_id.as_deref() == Some(other.id.as_str()) {
                continue;
            }
            let mut secrets = vec![other.key.clone(), other.id.clone()];
            secrets.extend(other.pipes.values().map(|p| p.id.clone()));
            // the request itself named `pid`; an echo of it in an error message reveals nothing
            for s in secrets {
                if s != pid && !s.is_empty() && resp.body.contains(&s) {
                    self.v28("response-leaks-other-tenant", kind_s, format!("response to [{}] contains {} of tenant {}", what, s, other.name));
                }
            }
        }
        if caller.is_none() {
            // nobody's key opens nothing, whatever the endpoint
            self.rep.probe("request-with-nobodys-key");
            if resp.status / 100 == 2 {
                self.v28("request-with-unknown-key-accepted", kind_s, format!("[{}] with key {:?} (not a tenant's key) answered {} {}", what, key, resp.status, resp.body.chars().take(160).collect::<String>()));
            }
        }
        if foreign && !matches!(kind_s, "list" | "usage") {
            self.foreign_judged += 1;
            self.rep.probe(&format!("foreign-{}", kind_s));
            let refused = match kind_s {
                // the batch endpoint answers 200 and silently skips events it cannot deliver: refused = nothing accepted
                "inject-batch" => resp.status / 100 != 2 || (resp.json["accepted"].as_u64() == Some(0) && resp.json["output_events"].as_array().map(|a| a.is_empty()).unwrap_or(true)),
                _ => resp.status / 100 != 2,
            };
            if !refused {
                self.v28("foreign-request-not-refused", kind_s, format!("[{}] answered {} {}", what, resp.status, resp.body.chars().take(160).collect::<String>()));
            }
        }
        if !foreign {
            if let Some(c) = &caller_t {
                match kind_s {
                    "list" => {
                        let got: Vec<String> = resp.json["pipelines"].as_array().into_iter().flatten().map(|p| p["id"].as_str().unwrap_or("").to_string()).collect();
                        let mut want: Vec<String> = c.pipes.values().map(|p| p.id.clone()).collect();
                        let mut g = got.clone();
                        g.sort();
                        want.sort();
                        if g != want {
                            // a list showing anything but the caller's own pipelines
                            let foreign_seen = got.iter().any(|id| !want.contains(id));
                            if foreign_seen {
                                self.v28("list-shows-foreign-pipeline", "list", format!("tenant {} listed {:?}, owns {:?}", c.name, got, want));
                            } else {
                                self.v22("list-differs-from-acknowledged", "list", format!("tenant {} listed {:?}, acknowledged {:?}", c.name, got, want));
                            }
                        }
                    }
                    "get" | "metrics" | "checkpoint" | "inject" | "inject-batch" | "restore" => {
                        if resp.status / 100 != 2 {
                            self.v22("own-request-refused", kind_s, format!("[{}] -> {} {}", what, resp.status, resp.body.chars().take(120).collect::<String>()));
                        }
                    }
                    _ => {}
                }
            }
        }
    }
}

fn diff_keys(a: &Value, b: &Value) -> String {
    let mut out = vec![];
    if let (Some(x), Some(y)) = (a.as_object(), b.as_object()) {
        for (k, v) in x {
            if y.get(k) != Some(v) {
                if k == "pipelines" {
                    out.push(format!("pipelines: {}", diff_keys(v, y.get(k).unwrap_or(&Value::Null))));
                } else if v.is_object() {
                    out.push(format!("{}: {{{}}}", k, diff_keys(v, y.get(k).unwrap_or(&Value::Null))));
                } else {
                    out.push(format!("{}: {} -> {}", k, v, y.get(k).unwrap_or(&Value::Null)));
                }
            }
        }
        for k in y.keys() {
            if !x.contains_key(k) {
                out.push(format!("{} added", k));
            }
        }
    }
    out.join("; ").chars().take(300).collect()
}

fn gen_ops(prop: &str, tape: &mut Tape) -> Vec<Op> {
    let mut ops = vec![];
    if prop == "C22" {
        let n = tape.range(3, 8);
        // bias: tenants first so later operations have something to act on
        for i in 0..n {
            let o = match tape.draw(if i < 2 { 3 } else { 12 }) {
                0 | 1 => Op::CreateTenant(tape.draw(2) as usize),
                2 | 3 | 4 | 5 => Op::Deploy(tape.draw(2) as usize, tape.draw(3) as usize, tape.draw(5) as usize),
                6 | 7 => Op::Reload(tape.draw(2) as usize, tape.draw(3) as usize, tape.draw(9) as usize),
                8 | 9 => Op::DeletePipe(tape.draw(2) as usize, tape.draw(3) as usize),
                10 => Op::DeleteTenant(tape.draw(2) as usize),
                _ => Op::Req { kind: 0, caller: tape.draw(2) as usize, victim: 0, pslot: 0 },
            };
            ops.push(o);
        }
    } else {
        let nt = tape.range(2, 3) as usize;
        for t in 0..nt {
            ops.push(Op::CreateTenant(t));
        }
        for t in 0..nt {
            if tape.chance(4, 5) {
                ops.push(Op::Deploy(t, 0, tape.draw(5) as usize));
            }
        }
        let n = tape.range(10, 25);
        for _ in 0..n {
            let o = match tape.draw(20) {
                0 => Op::CreateTenant(tape.draw(nt as u64) as usize),
                1 | 2 => Op::Deploy(tape.draw(nt as u64) as usize, tape.draw(2) as usize, tape.draw(5) as usize),
                3 => Op::DeletePipe(tape.draw(nt as u64) as usize, tape.draw(2) as usize),
                4 => Op::Reload(tape.draw(nt as u64) as usize, tape.draw(2) as usize, tape.draw(9) as usize),
                5 => Op::DeleteTenant(tape.draw(nt as u64) as usize),
                6 => Op::BadKey { kind: tape.draw(11) as usize, victim: tape.draw(nt as u64) as usize, pslot: tape.draw(2) as usize },
                _ => Op::Req { kind: tape.draw(11) as usize, caller: tape.draw(nt as u64) as usize, victim: tape.draw(nt as u64) as usize, pslot: tape.draw(2) as usize },
            };
            ops.push(o);
        }
    }
    ops
}

fn exec(prop: &str, ops: &[Op], faults: BTreeMap<u64, (FaultKind, u64)>, rep: &mut Report) -> u64 {
    let dir = scratch("c22");
    let plan = Rc::new(RefCell::new(FsPlan { at: faults, ..Default::default() }));
    let mut sim = Sim { prop, dir: dir.clone(), plan: plan.clone(), srv: None, model: BTreeMap::new(), gen: 0, acked: 0, foreign_judged: 0, crashes_in_write_ops: 0, rep };
    sim.srv = Some(Server::boot(&dir));
    install_fs_hook(plan.clone());
    for op in ops {
        if sim.rep.violated() {
            break;
        }
        sim.exec_op(op);
    }
    // final clean restart: everything acknowledged must be there
    if !sim.rep.violated() {
        sim.srv = None;
        sim.rep.log("final clean restart");
        sim.recover_and_judge(None, "", "");
    }
    let tenants_with_pipes = sim.model.values().filter(|t| !t.pipes.is_empty()).count();
    let (acked, fj, cw) = (sim.acked, sim.foreign_judged, sim.crashes_in_write_ops);
    sim.srv = None;
    for f in &plan.borrow().fired {
        let kind = if f.contains("TornCrash") { "torn-write-crash" } else { "crash" };
        rep.fault(kind);
        if f.contains("put.rename") { rep.probe("crash-between-write-and-rename"); }
        if f.contains("tenants/index") || f.contains("tenants/index.tmp") { rep.probe("crash-during-index-update"); }
        if f.contains("put.done tenant/") { rep.probe("crash-between-snapshot-and-index"); }
    }
    rep.ops += acked;
    if prop == "C22" {
        rep.nontrivial = cw > 0 && acked >= 3;
    } else {
        rep.nontrivial = fj >= 3 && tenants_with_pipes >= 2;
    }
    let seen = plan.borrow().seen;
    clear_fs_hook();
    let _ = std::fs::remove_dir_all(&dir);
    seen
}

pub fn run(prop: &str, batch: &str, tape: &mut Tape, rep: &mut Report) {
    let ops = gen_ops(prop, tape);
    rep.config = format!("prop={} batch={} ops={:?}", prop, batch, ops);
    rep.log(format!("config {}", rep.config));
    match batch {
        "faultfree" | "isolation-nocrash" => {
            exec(prop, &ops, BTreeMap::new(), rep);
            if prop == "C22" {
                rep.nontrivial = rep.ops >= 3;
            }
        }
        "sweep" => {
            let mut dry = Report::default();
            let n = exec(prop, &ops, BTreeMap::new(), &mut dry);
            rep.log(format!("sweep over {} fault points", n));
            for c in 0..n {
                let mut f = BTreeMap::new();
                f.insert(c, (FaultKind::Crash, 0));
                let mut sub = Report::default();
                exec(prop, &ops, f, &mut sub);
                rep.ops += 1;
                for (k, v) in sub.faults { *rep.faults.entry(k).or_insert(0) += v; }
                for (k, v) in sub.probes { *rep.probes.entry(k).or_insert(0) += v; }
                if !sub.violations.is_empty() {
                    rep.log(format!("--- sweep point {}:", c));
                    for l in sub.trace { rep.log(l); }
                    for v in sub.violations { rep.violate(&v.class, &v.sig, v.detail); }
                    return;
                }
            }
            rep.nontrivial = n >= 8;
        }
        _ => {
            let writes = ops.iter().filter(|o| !matches!(o, Op::Req { .. } | Op::BadKey { .. })).count() as u64;
            let nf = tape.range(1, 3);
            let mut f = BTreeMap::new();
            for _ in 0..nf {
                let at = tape.draw(writes.max(1) * 8 + 2);
                f.insert(at, draw_kind(tape, false));
            }
            exec(prop, &ops, f, rep);
        }
    }
}
