//! W2 — durable-store world: FileStore + CheckpointManager (C21), TenantManager +
//! the real HTTP handlers via warp::test (C22), tenant isolation monitored across
//! requests and restarts (C28). Crash = unwind out of the simulated process at an
//! H2 fault point inside FileStore; only the scratch directory survives.

use std::cell::RefCell;
use std::collections::BTreeMap;
use std::path::{Path, PathBuf};
use std::rc::Rc;
use std::sync::Arc;

use vsim_core::{Batch, Prop, Report, SimCrash, Tape, World};

vsim_core::interpose!();

mod c21;
mod c22;

#[derive(Clone, Copy, Debug, PartialEq)]
pub enum FaultKind {
    Crash,
    TornCrash,
    IoError,
}

#[derive(Default)]
pub struct FsPlan {
    /// global fs_point indices at which a fault fires, with its kind (and torn fraction per mille)
    pub at: BTreeMap<u64, (FaultKind, u64)>,
    pub seen: u64,
    pub fired: Vec<String>,
    pub log: Vec<String>,
    /// a torn write scheduled at the preceding put.write point: (fraction, directory contents before the write)
    pub pending_torn: Option<(u64, PathBuf, BTreeMap<String, Vec<u8>>)>,
}

fn dir_contents(dir: &Path) -> BTreeMap<String, Vec<u8>> {
    let mut m = BTreeMap::new();
    if let Ok(rd) = std::fs::read_dir(dir) {
        for e in rd.flatten() {
            if e.path().is_file() {
                m.insert(e.file_name().to_string_lossy().to_string(), std::fs::read(e.path()).unwrap_or_default());
            }
        }
    }
    m
}

pub fn install_fs_hook(plan: Rc<RefCell<FsPlan>>) {
    varpulis_runtime::verif::set_fs_hook(Some(Box::new(move |op: &str, path: &Path, bytes: &[u8]| {
        let mut p = plan.borrow_mut();
        let idx = p.seen;
        p.seen += 1;
        let name = path.file_name().map(|s| s.to_string_lossy().to_string()).unwrap_or_default();
        let parent = path.parent().and_then(|q| q.file_name()).map(|s| s.to_string_lossy().to_string()).unwrap_or_default();
        let short = if name.len() > 12 { format!("{}..", &name[..8]) } else { name };
        // A torn write is emulated right after the write returned and before anything else happens:
        // whichever file the write created or changed is cut back to a prefix, then the process dies.
        // (This tears the file that was really written, wherever the code under test wrote it.)
        if let Some((frac, dir, before)) = p.pending_torn.take() {
            let after = dir_contents(&dir);
            for (name, data) in &after {
                if before.get(name) != Some(data) {
                    let n = (data.len() as u64 * frac / 1000) as usize;
                    let _ = std::fs::write(dir.join(name), &data[..n.min(data.len())]);
                    p.log.push(format!("   torn write: {} of {} bytes of {}/{} persisted", n, data.len(), parent, name));
                }
            }
            drop(p);
            std::panic::resume_unwind(Box::new(SimCrash));
        }
        if let Some((kind, frac)) = p.at.get(&idx).copied() {
            let desc = format!("fs_point#{} {} {}/{} -> {:?}", idx, op, parent, short, kind);
            p.fired.push(desc.clone());
            p.log.push(desc);
            match kind {
                FaultKind::IoError => return Err(format!("injected I/O error at {}", op)),
                FaultKind::Crash => {
                    drop(p);
                    std::panic::resume_unwind(Box::new(SimCrash));
                }
                FaultKind::TornCrash => {
                    if op == "put.write" {
                        let dir = path.parent().map(|d| d.to_path_buf()).unwrap_or_default();
                        let before = dir_contents(&dir);
                        p.pending_torn = Some((frac, dir, before));
                        let _ = bytes;
                        return Ok(());
                    }
                    drop(p);
                    std::panic::resume_unwind(Box::new(SimCrash));
                }
            }
        }
        Ok(())
    })));
}

pub fn clear_fs_hook() {
    varpulis_runtime::verif::set_fs_hook(None);
}

/// Run `f`; Ok(v) if it returned, Err(()) if the simulated process crashed inside it.
pub fn crashable<T>(f: impl FnOnce() -> T) -> Result<T, ()> {
    match std::panic::catch_unwind(std::panic::AssertUnwindSafe(f)) {
        Ok(v) => Ok(v),
        Err(p) => {
            if p.downcast_ref::<SimCrash>().is_some() {
                Err(())
            } else {
                std::panic::resume_unwind(p)
            }
        }
    }
}

pub fn scratch(tag: &str) -> PathBuf {
    let base: PathBuf = if Path::new("/dev/shm").is_dir() { "/dev/shm".into() } else { std::env::temp_dir() };
    let d = base.join(format!("vsim-w2-{}-{}", std::process::id(), tag));
    let _ = std::fs::remove_dir_all(&d);
    std::fs::create_dir_all(&d).expect("scratch dir");
    d
}

pub fn draw_kind(tape: &mut Tape, allow_err: bool) -> (FaultKind, u64) {
    match tape.draw(if allow_err { 4 } else { 3 }) {
        0 | 1 => (FaultKind::Crash, 0),
        2 => (FaultKind::TornCrash, tape.draw(1001)),
        _ => (FaultKind::IoError, 0),
    }
}

struct W2;

impl World for W2 {
    fn name(&self) -> &'static str {
        "w2-store"
    }
    fn props(&self) -> Vec<Prop> {
        let real22 = vec![
            "varpulis_cli::api::api_routes (all tenant/pipeline/admin handlers, via warp::test)",
            "varpulis_runtime::tenant::{TenantManager,Tenant} incl. recover()",
            "varpulis_runtime::persistence::FileStore on a real tmpfs directory",
            "varpulis_parser + Engine::load/reload of deployed pipelines",
        ];
        vec![
            Prop {
                id: "C21",
                batches: vec![
                    Batch { name: "crash", quick: 6_000, thorough: 150_000, faulty: true },
                    Batch { name: "corrupt", quick: 6_000, thorough: 150_000, faulty: true },
                    Batch { name: "sweep", quick: 300, thorough: 12_000, faulty: true },
                    Batch { name: "faultfree", quick: 1_000, thorough: 20_000, faulty: false },
                ],
                rule: "one run = one history of 2-8 CheckpointManager::checkpoint calls with distinguishable payloads, restarts, stray *.tmp files and (corrupt batch) truncation/bit-flip/emptying of the newest file, max_checkpoints 1-3, on a real FileStore directory; faults fire at tape-chosen H2 fault points inside FileStore::put/delete (crash, torn temp-file write + crash, I/O error); the sweep batch re-executes each history once per fault point x {crash, torn}. After every restart recover() is compared with the ground truth read from the directory. Non-trivial = at least one fault fired inside an in-flight save/prune AND at least 2 saves completed; distinct = distinct decoded-trace hash.",
                real: vec!["varpulis_runtime::persistence::{FileStore, CheckpointManager, Checkpoint}", "varpulis_runtime::codec", "std::fs on tmpfs"],
                stub: vec!["the process (crash = unwind at a fault point; new incarnation opens the same directory)"],
                assumptions: vec!["process-crash model: completed syscalls survive (page cache); power loss not modelled because FileStore never fsyncs", "ground truth is read back with the repo's own codec::deserialize"],
            },
            Prop {
                id: "C22",
                batches: vec![
                    Batch { name: "crash", quick: 7_000, thorough: 60_000, faulty: true },
                    Batch { name: "sweep", quick: 200, thorough: 3_000, faulty: true },
                    Batch { name: "faultfree", quick: 1_500, thorough: 10_000, faulty: false },
                ],
                rule: "one run = one history of up to 8 management operations (create/delete tenant, deploy/delete/reload pipeline) over 2 tenants x 3 pipeline slots through the real HTTP handlers on a FileStore-backed TenantManager, with 1-3 crashes at tape-chosen H2 fault points (sweep batch: every fault point of the history); after each crash a new TenantManager recovers from the directory and is compared with the model of acknowledged state (the single in-flight operation may be absent or present). Non-trivial = a crash fired inside an operation that writes AND >= 3 operations were acknowledged; distinct = distinct decoded-trace hash.",
                real: real22.clone(),
                stub: vec!["HTTP socket layer (requests injected in-process)", "the process (crash = unwind at a fault point)"],
                assumptions: vec!["store write errors without a crash are outside the property's quantifier and not injected here", "process-crash model (page cache survives)"],
            },
            Prop {
                id: "C28",
                batches: vec![
                    Batch { name: "isolation", quick: 2_500, thorough: 60_000, faulty: true },
                    Batch { name: "isolation-nocrash", quick: 1_000, thorough: 20_000, faulty: false },
                ],
                rule: "one run = one history of 10-25 requests over 2-3 tenants mixing every pipeline endpoint (list/get/inject/inject-batch/reload/checkpoint/restore/delete/metrics/usage/logs) with own and foreign keys and pipeline ids, interleaved with management operations and (isolation batch) crash + recovery, so that foreign requests also arrive first after the key index has been rebuilt. Oracle: a foreign request is refused and the victim tenant's observable state (pipelines, sources, statuses, usage counters, engine checkpoints) is identical before and after; own list/get responses never contain another tenant's pipeline. Non-trivial = >= 3 foreign requests judged AND >= 2 tenants with pipelines; distinct = distinct decoded-trace hash.",
                real: real22,
                stub: vec!["HTTP socket layer (requests injected in-process)", "the process (crash = unwind at a fault point)"],
                assumptions: vec!["observable state is read directly from the TenantManager (pipelines, usage, Engine::create_checkpoint) rather than only via HTTP"],
            },
        ]
    }
    fn run(&self, prop: &str, batch: &str, tape: &mut Tape, rep: &mut Report) {
        match prop {
            "C21" => c21::run(batch, tape, rep),
            "C22" | "C28" => c22::run(prop, batch, tape, rep),
            _ => panic!("vsim harness: unknown property {}", prop),
        }
        clear_fs_hook();
    }
}

static WORLD: W2 = W2;

fn main() {
    vsim_core::driver::main(&WORLD)
}

#[allow(dead_code)]
fn _unused(_: Arc<()>) {}
