//! W6 — raft world. Storage node (C35, C36); cluster (C37); coordinators on raft (C38).
use vsim_core::{Batch, Prop, Report, Tape, World};
vsim_core::interpose!();

mod storage;

struct W6;
impl World for W6 {
    fn name(&self) -> &'static str {
        "w6-raft"
    }
    fn props(&self) -> Vec<Prop> {
        vec![
            Prop {
                id: "C35",
                batches: vec![
                    Batch { name: "mem", quick: 6_000, thorough: 300_000, faulty: false },
                    Batch { name: "rocks", quick: 600, thorough: 30_000, faulty: false },
                    Batch { name: "conformance-suite", quick: 1, thorough: 2, faulty: false },
                ],
                rule: "one run = two replicas of the same store type (real MemStore or real RocksStore) driven through the RaftStorage trait by one history of 6-40 operations over all 16 ClusterCommand kinds: append (same entries on both), apply with different batching per replica, build snapshot on A, install A's snapshot on lagging B at any index, purge up to any applied index (often everything), delete a conflicting suffix and re-append in a new term, save vote. After every operation: (a) equal state at equal applied index, (b) state == an independent reference model of apply_command at the applied position, (c) get_log_state / try_get_log_entries / read_vote / last_applied_state == reference model of the storage contract. Non-trivial = >= 4 entries appended and something applied; distinct = distinct decoded-trace hash.",
                real: vec!["varpulis_cluster::raft::store::MemStore", "varpulis_cluster::raft::persistent_store::RocksStore (real RocksDB on tmpfs)", "apply_command, snapshot builders, openraft 0.9.21 types"],
                stub: vec!["openraft's core (the harness plays its role towards the storage trait)"],
                assumptions: vec!["membership entries are appended but last_membership is not judged", "the openraft conformance suite is run as fixed scenarios in the thorough tier only (not simulation)"],
            },
            Prop {
                id: "C36",
                batches: vec![
                    Batch { name: "crashes", quick: 1_000, thorough: 60_000, faulty: true },
                    Batch { name: "clean-restarts", quick: 300, thorough: 15_000, faulty: false },
                ],
                rule: "one run = one real RocksStore driven by a history of 6-30 operations (append, apply, build snapshot, install a consistent snapshot from an in-memory leader, purge, delete conflicting suffix, save vote) with 1-3 crashes armed at tape-chosen H5 crash points (after each individual RocksDB write inside an operation) and occasional clean restarts; crash = unwind at the crash point, the store object is dropped, RocksStore::open_with_shared_state reopens the same directory. After every restart: each recorded item (applied position, vote, purge position, log) is the value before or after the interrupted operation, the log is contiguous and starts right after the purge position, and the published state machine equals the reference model of the commands up to the recorded applied position. Non-trivial = at least one restart and >= 3 entries; distinct = distinct decoded-trace hash.",
                real: vec!["varpulis_cluster::raft::persistent_store::RocksStore incl. open/recover_metadata/replay_log", "real RocksDB (WAL, column families) on tmpfs"],
                stub: vec!["openraft's core", "the process (crash = unwind at a crash point; completed RocksDB writes survive, as with a process kill)"],
                assumptions: vec!["process-crash model; RocksDB-internal recovery and power loss are out of scope", "last_membership is not judged"],
            },
        ]
    }
    fn run(&self, prop: &str, batch: &str, tape: &mut Tape, rep: &mut Report) {
        match prop {
            "C35" if batch == "conformance-suite" => storage::run_conformance(tape, rep),
            "C35" => storage::run_c35(batch, tape, rep),
            "C36" => storage::run_c36(batch, tape, rep),
            _ => panic!("vsim harness: unknown property {}", prop),
        }
    }
}
static WORLD: W6 = W6;
fn main() {
    if std::env::args().nth(1).as_deref() == Some("suite") {
        // debugging aid: run the conformance suite with panics printed
        let mut rep = Report::default();
        let mut tape = Tape::generate(1);
        storage::run_conformance(&mut tape, &mut rep);
        for l in rep.trace {
            println!("{}", l);
        }
        return;
    }
    vsim_core::driver::main(&WORLD)
}
