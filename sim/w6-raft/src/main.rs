//! W6 — raft world. Storage node (C35, C36); cluster (C37); coordinators on raft (C38).
use vsim_core::{Batch, Prop, Report, Tape, World};
vsim_core::interpose!();

mod cluster;
mod coord;
mod storage;

struct W6;
impl World for W6 {
    fn name(&self) -> &'static str {
        "w6-raft"
    }
    fn props(&self) -> Vec<Prop> {
        vec![
            Prop {
                id: "C35",
                batches: vec![
                    Batch { name: "mem", quick: 6_000, thorough: 300_000, faulty: false },
                    Batch { name: "rocks", quick: 600, thorough: 30_000, faulty: false },
                    Batch { name: "conformance-suite", quick: 1, thorough: 2, faulty: false },
                ],
                rule: "one run = two replicas of the same store type (real MemStore or real RocksStore) driven through the RaftStorage trait by one history of 6-40 operations over all 16 ClusterCommand kinds: append (same entries on both), apply with different batching per replica, build snapshot on A, install A's snapshot on lagging B at any index, purge up to any applied index (often everything), delete a conflicting suffix and re-append in a new term, save vote. After every operation: (a) equal state at equal applied index, (b) state == an independent reference model of apply_command at the applied position, (c) get_log_state / try_get_log_entries / read_vote / last_applied_state == reference model of the storage contract. Non-trivial = >= 4 entries appended and something applied; distinct = distinct decoded-trace hash.",
                real: vec!["varpulis_cluster::raft::store::MemStore", "varpulis_cluster::raft::persistent_store::RocksStore (real RocksDB on tmpfs)", "apply_command, snapshot builders, openraft 0.9.21 types"],
                stub: vec!["openraft's core (the harness plays its role towards the storage trait)"],
                assumptions: vec!["the openraft conformance suite is run as fixed scenarios in the thorough tier only (not simulation)"],
            },
            Prop {
                id: "C36",
                batches: vec![
                    Batch { name: "crashes", quick: 1_000, thorough: 60_000, faulty: true },
                    Batch { name: "clean-restarts", quick: 300, thorough: 15_000, faulty: false },
                ],
                rule: "one run = one real RocksStore driven by a history of 6-30 operations (append, apply, build snapshot, install a consistent snapshot from an in-memory leader, purge, delete conflicting suffix, save vote) with 1-3 crashes armed at tape-chosen H5 crash points (after each individual RocksDB write inside an operation) and occasional clean restarts; crash = unwind at the crash point, the store object is dropped, RocksStore::open_with_shared_state reopens the same directory. After every restart: each recorded item (applied position, vote, purge position, log) is the value before or after the interrupted operation, the log is contiguous and starts right after the purge position, and the published state machine equals the reference model of the commands up to the recorded applied position. Non-trivial = at least one restart and >= 3 entries; distinct = distinct decoded-trace hash.",
                real: vec!["varpulis_cluster::raft::persistent_store::RocksStore incl. open/recover_metadata/replay_log", "real RocksDB (WAL, column families) on tmpfs"],
                stub: vec!["openraft's core", "the process (crash = unwind at a crash point; completed RocksDB writes survive, as with a process kill)"],
                assumptions: vec!["process-crash model; RocksDB-internal recovery and power loss are out of scope"],
            },
            Prop {
                id: "C37",
                batches: vec![
                    Batch { name: "healthy", quick: 60, thorough: 3_000, faulty: false },
                    Batch { name: "faults", quick: 300, thorough: 20_000, faulty: true },
                    Batch { name: "snapshots", quick: 150, thorough: 10_000, faulty: true },
                    Batch { name: "restarts", quick: 100, thorough: 6_000, faulty: true },
                    Batch { name: "restarts-snapshots", quick: 150, thorough: 6_000, faulty: true },
                ],
                rule: "one run = a 3-node cluster of real openraft 0.9.21 nodes (varpulis' TypeConfig, MemStore or RocksStore, apply_command, NetworkFactory/NetworkClient request construction, raft_routes handlers) on a paused tokio clock for 30-90 simulated seconds, with 1-3 clients writing uniquely tagged commands at any node and following leader hints. The simulated network decides per RPC: latency 0-300 ms, slow (0.5-3 s), drop, reply loss, and a tape-drawn schedule of partitions (incl. of the current leader), node stalls and, on RocksStore nodes, crash and restart on the same directory; a third batch uses an aggressive snapshot policy so lagging followers are caught up by snapshot. Every 100 ms of simulated time: for any two nodes and any index both have applied, the state recorded at that index (by an observing wrapper around the real store) is equal; every acknowledged write is present on every node that has applied past its index; same again after heal. Non-trivial = >= 3 acknowledged writes and (in fault batches) at least one fault fired; distinct = distinct decoded-trace hash.",
                real: vec!["openraft 0.9.21 (the real library: elections, replication, snapshots)", "varpulis MemStore / RocksStore, apply_command, TypeConfig", "raft::network::{NetworkFactory, NetworkClient} (request construction, error mapping) over the H3 stand-in for reqwest", "raft::routes::raft_routes handlers incl. auth filter, via warp::test"],
                stub: vec!["the network (simulated transport: latency, loss, partitions, refusal)", "clients", "bootstrap_with_storage is transcribed (same Config, same initialise-on-node-1 rule) because the store must be wrapped by the observing delegate"],
                assumptions: vec!["network decisions are drawn from a PRNG seeded by one tape value (they shrink as a block, not individually)", "node crash = Raft::shutdown at an arbitrary instant + restart on the same RocksDB directory; crashes inside a storage operation are C36's subject", "bounded liveness (a write commits within 30 simulated seconds after the last fault) is measured as a probe, not asserted"],
            },
            Prop {
                id: "C32",
                batches: vec![
                    Batch { name: "sequential-core", quick: 1_500, thorough: 60_000, faulty: false },
                    Batch { name: "sequential-membership", quick: 1_000, thorough: 40_000, faulty: false },
                    Batch { name: "sequential-faults", quick: 2_000, thorough: 80_000, faulty: true },
                    Batch { name: "sequential-failover", quick: 2_000, thorough: 80_000, faulty: true },
                    Batch { name: "interleaved-core", quick: 3_000, thorough: 150_000, faulty: true },
                    Batch { name: "interleaved-all", quick: 2_500, thorough: 120_000, faulty: true },
                    Batch { name: "reply-loss", quick: 1_000, thorough: 40_000, faulty: true },
                ],
                rule: "one run = a standalone real Coordinator behind the real cluster_routes handlers with 2-3 simulated workers and 4-14 client requests (deploy group, teardown, manual migrate, drain, rebalance, register, deregister, heartbeat, health-loop tick) started at tape-chosen instants on a paused tokio clock; each request is its own task and yields at every lock acquisition and every worker call, so plan/execute/commit phases interleave as the seeded runtime and the tape-drawn worker latencies (0-200 ms) dictate; per worker call the outcome is success, HTTP 500, timeout or (reply-loss batch) executed-but-reply-lost. At quiescence: every Running placement names a registered worker; each worker's assigned_pipelines equals, as a multiset, the Running placements on it; pipelines_running equals their number (not judged in the reply-loss batch). The sequential batch spaces requests a minute apart with fault-free workers. Non-trivial = >= 3 requests answered 2xx; distinct = distinct decoded-trace hash (the trace is the (request, phase) interleaving).",
                real: vec!["varpulis_cluster::coordinator::Coordinator (plan/execute/commit deploy, teardown, migrate, drain, rebalance, failure handling, reconcile)", "varpulis_cluster::api::cluster_routes handlers incl. their lock scopes, rbac filter", "placement strategies, health_sweep", "HTTP client calls over the H3 stand-in for reqwest"],
                stub: vec!["workers (SimWorker: keeps its own pipeline set, answers truthfully unless a fault says otherwise)", "clients", "the health-loop body of varpulis-cli main.rs (transcribed: same public methods, same order, one write lock)"],
                assumptions: vec!["interleavings are those a single-threaded seeded tokio runtime produces given tape-drawn start instants and latencies"],
            },
            Prop {
                id: "C33",
                batches: vec![Batch { name: "timing", quick: 6_000, thorough: 250_000, faulty: true }, Batch { name: "raft-health-loop", quick: 200, thorough: 20_000, faulty: true }],
                rule: "one run = a standalone real Coordinator (heartbeat timeout 3-15 s, worker capacity 1-3) and 1-4 simulated workers driven sequentially through the real handlers by 6-40 events at tape-chosen virtual instants: time advances (incl. exactly timeout and timeout+-1 ms), heartbeats, health sweeps, deploys with and without worker affinity, manual migrations, drains, registrations and deregistrations; all worker calls succeed so only timing is in play. A reference worker table is stepped alongside: a sweep marks a Ready worker unhealthy iff its last heartbeat is older than the timeout (never earlier, never later), a heartbeat restores it, no deploy/migration/drain target is unhealthy, draining, full or deregistered at plan time, a pinned pipeline goes to its pin whenever the pin is available; the coordinator's worker statuses equal the table after every event. Non-trivial = a sweep marked a worker or >= 2 deploys; distinct = distinct decoded-trace hash.",
                real: vec!["Coordinator::{heartbeat, health_sweep, plan_deploy_group, migrate, drain_worker}, WorkerNode::is_available, RoundRobin/LeastLoaded placement", "cluster_routes handlers", "std::time::Instant via the link-level clock seam coupled to the paused tokio clock"],
                stub: vec!["workers (SimWorker, always succeed)", "clients"],
                assumptions: vec!["requests are sequential in this property: plan time = request time"],
            },
            Prop {
                id: "C38",
                batches: vec![
                    Batch { name: "single-replicated-ops", quick: 300, thorough: 15_000, faulty: false },
                    Batch { name: "single-all-ops", quick: 1_200, thorough: 25_000, faulty: true },
                    Batch { name: "three-replicated-ops", quick: 200, thorough: 10_000, faulty: false },
                    Batch { name: "three-all-ops", quick: 1_000, thorough: 20_000, faulty: true },
                ],
                rule: "one run = 1 or 3 coordinators started by the real raft::bootstrap (real openraft, MemStore) each with a real Coordinator::with_raft behind cluster_routes_with_raft, 2-3 simulated workers registering and heartbeating at their home coordinator (followers forward to the leader over the simulated transport), 4-14 API operations sent to any coordinator (deploy, teardown, manual migrate, drain, rebalance, connector create/update/delete) plus worker death/restart and isolation of the leader, and the health-loop tick on every coordinator every 5 simulated seconds. On the leader every tick brackets sync_from_raft with two views (worker status / assignments / running count, group placements, connectors): any difference means the re-synchronisation undid a change the coordinator had acknowledged or made itself; at quiescence each follower's view must equal the leader's. The *-replicated-ops batches use only operations whose handlers replicate everything they change (connector CRUD, teardown) and keep the full oracle. Non-trivial = >= 2 operations answered 2xx; distinct = distinct decoded-trace hash.",
                real: vec!["raft::bootstrap (openraft, MemStore, NetworkFactory), Coordinator::{with_raft, sync_from_raft, update_raft_role, health_sweep, handle_worker_failure, reconcile_placements, rebalance}", "api::cluster_routes_with_raft handlers incl. forward_to_leader and their ClusterCommand replication points", "raft_routes"],
                stub: vec!["workers (SimWorker)", "network (simulated transport)", "the health-loop body of varpulis-cli main.rs (transcribed; the sync step is bracketed by two reads of public state)"],
                assumptions: vec!["pipelines_running is excluded from the follower==leader comparison (it is heartbeat-local by design)"],
            },
        ]
    }
    fn run(&self, prop: &str, batch: &str, tape: &mut Tape, rep: &mut Report) {
        match prop {
            "C38" => coord::run_c38(batch, tape, rep),
            "C32" => coord::run_c32(batch, tape, rep),
            "C33" => coord::run_c33(batch, tape, rep),
            "C37" => cluster::run_c37(batch, tape, rep),
            "C35" if batch == "conformance-suite" => storage::run_conformance(tape, rep),
            "C35" => storage::run_c35(batch, tape, rep),
            "C36" => storage::run_c36(batch, tape, rep),
            _ => panic!("vsim harness: unknown property {}", prop),
        }
    }
}
static WORLD: W6 = W6;
fn main() {
    if std::env::args().nth(1).as_deref() == Some("suite") {
        // debugging aid: run the conformance suite with panics printed
        let mut rep = Report::default();
        let mut tape = Tape::generate(1);
        storage::run_conformance(&mut tape, &mut rep);
        for l in rep.trace {
            println!("{}", l);
        }
        return;
    }
    vsim_core::driver::main(&WORLD)
}
