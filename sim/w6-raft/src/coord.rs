//! W5 — coordinator world (shares the fabric with W6): the real Coordinator behind the real
//! cluster_routes handlers (plan / execute / commit incl. their lock scopes), real placement
//! strategies and health sweep; workers are `SimWorker`s reached through the H3 transport.
//! C32: bookkeeping consistency under interleavings and worker-call outcomes.
//! C33: placement only on available workers; failures detected on time (virtual clock).

use std::collections::{BTreeMap, BTreeSet, HashMap};
use std::sync::{Arc, Mutex};
use std::time::Duration;

use serde_json::{json, Value};
use varpulis_cluster::api::{cluster_routes, SharedCoordinator};
use varpulis_cluster::coordinator::Coordinator;
use varpulis_cluster::rbac::RbacConfig;
use varpulis_cluster::worker::{WorkerId, WorkerStatus};
use vsim_core::rng::Rng;
use vsim_core::{Report, Tape};
use warp::Filter;

use crate::cluster::{start_clock, sync_clock, transport, Net, NetCfg, Routes, SimWorker, WorkerFaultCfg};

pub fn whost(i: u64) -> String {
    format!("w{}:9000", i)
}
pub fn waddr(i: u64) -> String {
    format!("http://w{}:9000", i)
}

pub fn new_net(seed: u64) -> Arc<Mutex<Net>> {
    Arc::new(Mutex::new(Net {
        rng: Rng::new(seed),
        cfg: NetCfg { drop_permille: 0, reply_loss_permille: 0, max_latency_ms: 0, slow_permille: 0 },
        routes: HashMap::new(),
        isolated: BTreeSet::new(),
        stalled: BTreeSet::new(),
        faults: BTreeMap::new(),
        delivered: 0,
        log: vec![],
        workers: BTreeMap::new(),
        wcfg: WorkerFaultCfg::default(),
        events: vec![],
    }))
}

pub struct Resp {
    pub status: u16,
    pub json: Value,
}

/// A client request against the coordinator's real warp filter, in process.
pub async fn api(routes: &Routes, method: &str, path: &str, body: Option<Value>) -> Resp {
    let mut rq = warp::test::request().method(method).path(path);
    if let Some(b) = &body {
        rq = rq.json(b);
    }
    sync_clock();
    let r = rq.reply(routes).await;
    Resp { status: r.status().as_u16(), json: serde_json::from_slice(r.body()).unwrap_or(Value::Null) }
}

pub fn standalone(hb_timeout_s: u64) -> (SharedCoordinator, Routes) {
    let mut c = Coordinator::new();
    c.heartbeat_timeout = Duration::from_secs(hb_timeout_s);
    let shared: SharedCoordinator = Arc::new(tokio::sync::RwLock::new(c));
    let routes: Routes = cluster_routes(shared.clone(), Arc::new(RbacConfig::disabled()), None).map(|r| warp::Reply::into_response(r)).boxed();
    (shared, routes)
}

// The body of the coordinator health loop in varpulis-cli/src/main.rs::run_coordinator (a binary, not
// linkable) is extracted from /repo's current source by build.rs into `health_loop_iteration`, with
// observation callbacks (`hl_*` below) spliced in at textual anchors. So the loop that runs here is
// the shipped loop, not a transcription.
include!(concat!(env!("OUT_DIR"), "/health_loop.rs"));

/// Per-coordinator change tracking for C38: the last observed view and, for every key changed locally
/// since this coordinator last re-synchronised, the step (operation / heartbeat / loop stage) that changed it.
#[derive(Default)]
pub struct Track {
    pub node: u64,
    pub tracked: BTreeMap<String, String>,
    pub cause: BTreeMap<String, String>,
    pub before: BTreeMap<String, String>,
    pub judged: bool,
    /// this coordinator was the leader at its previous sync, and in which term
    pub leader_term_at_last_sync: Option<u64>,
    /// leader now, in the same term as at the previous sync: every replicated command since then came from this
    /// coordinator's own handlers, so the sync has nothing to tell it
    pub stable_leader: bool,
    pub reverted: Vec<(String, String)>,
    pub syncs_judged: u64,
}

impl Track {
    /// attribute every difference between the last observed view and `v` to `cause`
    pub fn attribute(&mut self, cause: &str, v: BTreeMap<String, String>) {
        for (k, val) in &v {
            if self.tracked.get(k) != Some(val) {
                self.cause.insert(k.clone(), cause.to_string());
            }
        }
        for k in self.tracked.keys() {
            if !v.contains_key(k) {
                self.cause.insert(k.clone(), cause.to_string());
            }
        }
        self.tracked = v;
    }
}

thread_local! {
    static HL_TRACK: std::cell::RefCell<Option<Track>> = const { std::cell::RefCell::new(None) };
    static HL_SWEPT: std::cell::RefCell<Vec<String>> = const { std::cell::RefCell::new(Vec::new()) };
}

pub fn hl_swept(failed: &[WorkerId]) {
    HL_SWEPT.with(|s| s.borrow_mut().extend(failed.iter().map(|w| w.0.clone())));
}
pub fn hl_before_sync(c: &Coordinator) {
    HL_TRACK.with(|t| {
        if let Some(t) = t.borrow_mut().as_mut() {
            let v = view(c);
            t.attribute("background", v.clone());
            t.before = v;
            t.judged = c.ha_role.is_writer();
            let term = c.raft_handle.as_ref().map(|h| h.raft.metrics().borrow().current_term);
            t.stable_leader = t.judged && term.is_some() && t.leader_term_at_last_sync == term;
            t.leader_term_at_last_sync = if t.judged { term } else { None };
        }
    });
}
pub fn hl_after_sync(c: &Coordinator) {
    HL_TRACK.with(|t| {
        if let Some(t) = t.borrow_mut().as_mut() {
            let after = view(c);
            if t.judged {
                t.syncs_judged += 1;
                let node = t.node;
                // Signatures. The per-worker load bookkeeping (assigned_pipelines, pipelines_running) has ONE root
                // cause whatever operation touched it (no handler replicates it, sync overwrites it), so its signature
                // is the field alone and the operation goes into the detail; every other field is identified by
                // field + the step that made the change. Appearing / disappearing entities are named as a whole.
                let entity = |k: &str| k.split('.').next().unwrap_or("?").to_string();
                for (k, b) in &t.before {
                    let Some(by) = t.cause.get(k) else { continue };
                    let kind = field_kind(k);
                    match after.get(k) {
                        Some(a) if a == b => {}
                        Some(a) => {
                            let sig = if kind == "worker.assigned_pipelines" || kind == "worker.pipelines_running" { kind.clone() } else { format!("{};by={}", kind, by) };
                            t.reverted.push((sig, format!("node {} (leader): {} was set to {} by {} and sync_from_raft changed it back to {}", node, k, b, by, a)));
                        }
                        None => t.reverted.push((format!("{};removed;by={}", entity(k), by), format!("node {} (leader): {} = {} came from {} and sync_from_raft removed it", node, k, b, by))),
                    }
                }
                // A coordinator that has been the leader since its previous sync already knows everything that was
                // replicated (it wrote it): whatever the sync still changes, without a local change to explain it, is
                // replicated state that differs from what this leader acknowledged (e.g. a refused request that was
                // replicated anyway).
                if t.stable_leader {
                    for (k, b) in &t.before {
                        if t.cause.contains_key(k) { continue; }
                        match after.get(k) {
                            Some(a) if a == b => {}
                            Some(a) => t.reverted.push((format!("{};no-local-change", field_kind(k)), format!("node {} (leader since its previous sync): sync_from_raft changed {} from {} to {} although nothing changed it locally", node, k, b, a))),
                            None => t.reverted.push((format!("{};removed;no-local-change", entity(k)), format!("node {} (leader since its previous sync): sync_from_raft removed {} (= {}) although nothing changed it locally", node, k, b))),
                        }
                    }
                    for (k, a) in &after {
                        if !t.before.contains_key(k) && !t.cause.contains_key(k) {
                            t.reverted.push((format!("{};appeared;no-local-change", entity(k)), format!("node {} (leader since its previous sync): sync_from_raft created {} = {} which this leader never acknowledged", node, k, a)));
                        }
                    }
                }
                for (k, a) in &after {
                    if !t.before.contains_key(k) {
                        if let Some(by) = t.cause.get(k) {
                            t.reverted.push((format!("{};reappeared;by={}", entity(k), by), format!("node {} (leader): {} was removed by {} and sync_from_raft brought it back (= {})", node, k, by, a)));
                        }
                    }
                }
            }
            t.cause.clear();
            t.tracked = after;
        }
    });
}
pub fn hl_stage(stage: &str, c: &Coordinator) {
    HL_TRACK.with(|t| {
        if let Some(t) = t.borrow_mut().as_mut() {
            t.attribute(stage, view(c));
        }
    });
}

/// One iteration of the real health loop; returns the workers the sweep marked unhealthy.
pub async fn health_tick(coord: &SharedCoordinator) -> Vec<String> {
    sync_clock();
    HL_SWEPT.with(|s| s.borrow_mut().clear());
    health_loop_iteration(coord).await;
    HL_SWEPT.with(|s| s.borrow_mut().drain(..).collect())
}

fn spec(name: &str, pipes: &[(String, Option<String>, usize)]) -> Value {
    json!({"name": name, "pipelines": pipes.iter().map(|(n, aff, rep)| json!({"name": n, "source": "stream A = Raw .emit(x: x)", "worker_affinity": aff, "replicas": rep})).collect::<Vec<_>>()})
}

/// Bookkeeping invariants of C32, read from the coordinator's public state.
pub fn check_bookkeeping(c: &Coordinator, judge_running_count: bool) -> Vec<(String, String)> {
    let mut out = vec![];
    let mut on: BTreeMap<String, Vec<String>> = BTreeMap::new();
    for (gid, g) in &c.pipeline_groups {
        for (name, d) in &g.placements {
            if d.status == varpulis_cluster::pipeline_group::PipelineDeploymentStatus::Running {
                if !c.workers.contains_key(&d.worker_id) {
                    out.push(("running-placement-on-unregistered-worker".to_string(), format!("group {} pipeline {} is Running on worker {} which is not registered", &gid[..6.min(gid.len())], name, d.worker_id)));
                }
                on.entry(d.worker_id.0.clone()).or_default().push(name.clone());
            }
        }
    }
    for (wid, w) in &c.workers {
        let mut have = w.assigned_pipelines.clone();
        have.sort();
        let mut want = on.get(&wid.0).cloned().unwrap_or_default();
        want.sort();
        if have != want {
            out.push(("assigned-pipelines-differ-from-running-placements".to_string(), format!("worker {}: assigned_pipelines {:?}, Running placements on it {:?}", wid, have, want)));
        }
        if judge_running_count && w.capacity.pipelines_running != want.len() {
            out.push(("running-count-differs-from-running-placements".to_string(), format!("worker {}: pipelines_running {}, Running placements on it {}", wid, w.capacity.pipelines_running, want.len())));
        }
    }
    out
}

// ───────────────────────────── C32 ─────────────────────────────

pub fn run_c32(batch: &str, tape: &mut Tape, rep: &mut Report) {
    let seed = tape.draw(u64::MAX);
    let sequential = batch.starts_with("sequential");
    // "core" batches use deploy / teardown / migrate / rebalance / heartbeat / tick only; the others add
    // membership changes (register an existing worker again, deregister, drain)
    let membership = !batch.ends_with("-core") && batch != "sequential-failover";
    let nworkers = tape.range(2, 3);
    let nreq = tape.range(4, 14);
    let wcfg = if batch == "interleaved-all" {
        WorkerFaultCfg { http_error_permille: *tape.pick(&[0u64, 100, 300]), timeout_permille: *tape.pick(&[0u64, 50, 150]), reply_lost_permille: 0, max_latency_ms: *tape.pick(&[0u64, 20, 200]) }
    } else if batch == "sequential-faults" {
        // one request at a time, but individual worker calls fail (HTTP 500 / timeout): partial deploys, failed migrations
        WorkerFaultCfg { http_error_permille: *tape.pick(&[150u64, 300, 500]), timeout_permille: *tape.pick(&[0u64, 100]), reply_lost_permille: 0, max_latency_ms: 0 }
    } else if batch == "reply-loss" {
        WorkerFaultCfg { http_error_permille: 100, timeout_permille: 50, reply_lost_permille: *tape.pick(&[100u64, 300]), max_latency_ms: 50 }
    } else {
        WorkerFaultCfg { http_error_permille: 0, timeout_permille: 0, reply_lost_permille: 0, max_latency_ms: if sequential { 0 } else { *tape.pick(&[0u64, 20, 200]) } }
    };
    // request schedule: (start ms, kind, args)
    #[derive(Clone, Debug)]
    enum Rq {
        Deploy(u64),
        Teardown(u64),
        Migrate(u64, u64),
        Drain(u64),
        Rebalance,
        Register(u64),
        Deregister(u64),
        Heartbeat(u64),
        Tick,
        /// the worker process dies (loses its pipelines, stops heartbeating, refuses calls) / comes back empty and
        /// resumes heartbeating without registering again
        WorkerDies(u64),
        WorkerBack(u64),
    }
    let failover = batch == "sequential-failover";
    let mut plan: Vec<(u64, Rq)> = vec![];
    let mut t = 0u64;
    for _ in 0..nreq {
        t += if sequential { 60_000 } else { *tape.pick(&[0u64, 0, 5, 50, 500, 5000]) };
        let w = tape.range(1, nworkers);
        let r = match if failover { [0u64, 1, 2, 3, 4, 4, 6, 7, 8, 12, 12, 12][tape.draw(12) as usize] } else { tape.draw(if membership { 12 } else { 9 }) } {
            12 => Rq::WorkerDies(w),
            13 => Rq::WorkerBack(w),
            0..=2 => Rq::Deploy(tape.draw(2)),
            3 => Rq::Teardown(tape.draw(2)),
            4 | 5 => Rq::Migrate(tape.draw(2), w),
            6 => Rq::Rebalance,
            7 => Rq::Heartbeat(w),
            8 => Rq::Tick,
            9 => Rq::Drain(w),
            10 => Rq::Register(w),
            _ => Rq::Deregister(w),
        };
        plan.push((t, r));
    }
    rep.config = format!("batch={} workers={} worker_faults(http500={}‰ timeout={}‰ reply_lost={}‰ latency<={}ms) requests={:?}", batch, nworkers, wcfg.http_error_permille, wcfg.timeout_permille, wcfg.reply_lost_permille, wcfg.max_latency_ms, plan);
    rep.log(format!("config {}", rep.config));

    let mut seed_bytes = [0u8; 32];
    seed_bytes[..8].copy_from_slice(&seed.to_le_bytes());
    let rt = tokio::runtime::Builder::new_current_thread().enable_time().start_paused(true).rng_seed(tokio::runtime::RngSeed::from_bytes(&seed_bytes)).build().expect("rt");
    let net = new_net(seed ^ 0xc32);
    net.lock().unwrap().wcfg = wcfg.clone();
    varpulis_cluster::verif_http::set_transport(Some(transport(net.clone())));
    let judge_count = batch != "reply-loss";
    let overlap = Arc::new(Mutex::new((0u64, false))); // (in flight, any overlap seen)
    // what happened in this run that the listed known findings need: (a) two placement-changing requests overlapped
    // in time, (b) a worker that was registered registered again, (c) a worker was deregistered / drained away
    let causes: Arc<Mutex<BTreeSet<&'static str>>> = Arc::new(Mutex::new(BTreeSet::new()));
    let mutating_in_flight = Arc::new(Mutex::new(0u64));
    let findings: Vec<(String, String)> = rt.block_on(async {
        start_clock();
        // sequential-core: no heartbeats at all (and a timeout nothing reaches), so that pipelines_running is purely the
        // coordinator's own bookkeeping and is never refreshed from a worker's report
        let no_heartbeats = batch == "sequential-core" || batch == "sequential-faults";
        let (coord, routes) = standalone(if no_heartbeats { 100_000_000 } else { 15 });
        for i in 1..=nworkers {
            net.lock().unwrap().workers.insert(whost(i), SimWorker { up: true, ..Default::default() });
            let r = api(&routes, "POST", "/api/v1/cluster/workers/register", Some(json!({"worker_id": format!("w{}", i), "address": waddr(i), "api_key": "k", "capacity": {"cpu_cores": 4, "pipelines_running": 0, "max_pipelines": 10}}))).await;
            assert!(r.status / 100 == 2, "vsim harness: register failed: {}", r.status);
        }
        let groups: Arc<Mutex<BTreeMap<u64, (String, String)>>> = Arc::new(Mutex::new(BTreeMap::new()));
        let mut tasks = vec![];
        let t0 = tokio::time::Instant::now();
        for (i, (at, rq)) in plan.iter().cloned().enumerate() {
            let (routes, coord, groups, net, overlap) = (routes.clone(), coord.clone(), groups.clone(), net.clone(), overlap.clone());
            let (causes, mutating_in_flight) = (causes.clone(), mutating_in_flight.clone());
            let fut = async move {
                tokio::time::sleep_until(t0 + Duration::from_millis(at)).await;
                {
                    let mut o = overlap.lock().unwrap();
                    o.0 += 1;
                    if o.0 > 1 { o.1 = true; }
                }
                net.lock().unwrap().events.push(format!("request #{} {:?} start", i, rq));
                let mutating = matches!(rq, Rq::Deploy(_) | Rq::Teardown(_) | Rq::Migrate(..) | Rq::Drain(_) | Rq::Rebalance | Rq::Tick | Rq::Register(_) | Rq::Deregister(_));
                if mutating {
                    let mut m = mutating_in_flight.lock().unwrap();
                    *m += 1;
                    if *m > 1 { causes.lock().unwrap().insert("overlapping-requests"); }
                }
                if let Rq::Register(w) = &rq {
                    if coord.read().await.workers.contains_key(&WorkerId(format!("w{}", w))) { causes.lock().unwrap().insert("worker-registered-again"); }
                }
                let out = match &rq {
                    Rq::Deploy(slot) => {
                        // pipeline names are unique per deploy (names are only unique within a group in varpulis; two groups
                        // sharing a pipeline name would add a second, unrelated bookkeeping ambiguity)
                        // every other deploy runs its first pipeline as two replicas (placements "name#0", "name#1")
                        let reps = 1 + (i % 2);
                        let pipes = vec![(format!("p{}a_{}", slot, i), None, reps), (format!("p{}b_{}", slot, i), None, 1)];
                        let r = api(&routes, "POST", "/api/v1/cluster/pipeline-groups", Some(spec(&format!("g{}", slot), &pipes))).await;
                        if r.status / 100 == 2 {
                            let migratable = if reps > 1 { format!("p{}a_{}#0", slot, i) } else { format!("p{}a_{}", slot, i) };
                            if let Some(id) = r.json["id"].as_str() { groups.lock().unwrap().insert(*slot, (id.to_string(), migratable)); }
                        }
                        r.status
                    }
                    Rq::Teardown(slot) => {
                        let gid = groups.lock().unwrap().get(slot).cloned();
                        match gid { Some((g, _)) => api(&routes, "DELETE", &format!("/api/v1/cluster/pipeline-groups/{}", g), None).await.status, None => 0 }
                    }
                    Rq::Migrate(slot, w) => {
                        let gid = groups.lock().unwrap().get(slot).cloned();
                        match gid { Some((g, pa)) => api(&routes, "POST", &format!("/api/v1/cluster/pipelines/{}/{}/migrate", g, pa), Some(json!({"target_worker_id": format!("w{}", w)}))).await.status, None => 0 }
                    }
                    Rq::Drain(w) => api(&routes, "POST", &format!("/api/v1/cluster/workers/w{}/drain", w), Some(json!({}))).await.status,
                    Rq::Rebalance => api(&routes, "POST", "/api/v1/cluster/rebalance", None).await.status,
                    Rq::Register(w) => {
                        net.lock().unwrap().workers.entry(whost(*w)).or_insert(SimWorker { up: true, ..Default::default() }).up = true;
                        api(&routes, "POST", "/api/v1/cluster/workers/register", Some(json!({"worker_id": format!("w{}", w), "address": waddr(*w), "api_key": "k", "capacity": {"cpu_cores": 4, "pipelines_running": 0, "max_pipelines": 10}}))).await.status
                    }
                    Rq::Deregister(w) => api(&routes, "DELETE", &format!("/api/v1/cluster/workers/w{}", w), None).await.status,
                    Rq::Heartbeat(_) if no_heartbeats => 0,
                    Rq::Heartbeat(w) if !net.lock().unwrap().workers.get(&whost(*w)).map(|x| x.up).unwrap_or(false) => 0, // a dead worker sends nothing
                    Rq::Heartbeat(w) => {
                        let n = net.lock().unwrap().workers.get(&whost(*w)).map(|x| x.pipelines.len()).unwrap_or(0);
                        api(&routes, "POST", &format!("/api/v1/cluster/workers/w{}/heartbeat", w), Some(json!({"events_processed": 0, "pipelines_running": n}))).await.status
                    }
                    Rq::Tick => { health_tick(&coord).await; 200 }
                    Rq::WorkerDies(w) => {
                        let mut g = net.lock().unwrap();
                        if let Some(x) = g.workers.get_mut(&whost(*w)) { x.up = false; x.pipelines.clear(); }
                        g.fault("worker-died");
                        200
                    }
                    Rq::WorkerBack(w) => {
                        let mut g = net.lock().unwrap();
                        if let Some(x) = g.workers.get_mut(&whost(*w)) { if !x.up { x.up = true; g.fault("worker-back"); } }
                        200
                    }
                };
                net.lock().unwrap().events.push(format!("request #{} {:?} -> {}", i, rq, out));
                {
                    // the coordinator's books after this request (decoded trace only)
                    let c = coord.read().await;
                    let mut ws: Vec<String> = c.workers.iter().map(|(id, w)| { let mut a = w.assigned_pipelines.clone(); a.sort(); format!("{} running={} assigned={:?}", id, w.capacity.pipelines_running, a) }).collect();
                    ws.sort();
                    net.lock().unwrap().events.push(format!("   books: {}", ws.join("; ")));
                }
                if mutating { *mutating_in_flight.lock().unwrap() -= 1; }
                if matches!(rq, Rq::Deregister(_) | Rq::Drain(_)) && out / 100 == 2 { causes.lock().unwrap().insert("worker-removed"); }
                overlap.lock().unwrap().0 -= 1;
            };
            tasks.push(tokio::spawn(fut));
        }
        // every live worker heartbeats every 5 s with its own pipeline count (as the real worker does)
        let hb_stop = Arc::new(std::sync::atomic::AtomicBool::new(false));
        let hb = {
            let (routes, net, hb_stop) = (routes.clone(), net.clone(), hb_stop.clone());
            tokio::spawn(async move {
                while !hb_stop.load(std::sync::atomic::Ordering::SeqCst) {
                    tokio::time::sleep(Duration::from_secs(5)).await;
                    if no_heartbeats {
                        continue;
                    }
                    let ws: Vec<(String, usize)> = net.lock().unwrap().workers.iter().filter(|(_, w)| w.up).map(|(h, w)| (h.split(':').next().unwrap_or("w").to_string(), w.pipelines.len())).collect();
                    for (id, n) in ws {
                        let _ = api(&routes, "POST", &format!("/api/v1/cluster/workers/{}/heartbeat", id), Some(json!({"events_processed": 0, "pipelines_running": n}))).await;
                    }
                }
            })
        };
        // sequential-failover: the health loop runs on its own every 5 s (offset by 2.5 s so that an iteration never
        // coincides with a request), as in a running coordinator; a worker that died is noticed and failed over
        let loop_task = if failover {
            let (coord, hb_stop) = (coord.clone(), hb_stop.clone());
            Some(tokio::spawn(async move {
                tokio::time::sleep(Duration::from_millis(2500)).await;
                while !hb_stop.load(std::sync::atomic::Ordering::SeqCst) {
                    health_tick(&coord).await;
                    tokio::time::sleep(Duration::from_secs(5)).await;
                }
            }))
        } else { None };
        for t in tasks {
            let _ = t.await;
        }
        if let Some(t) = loop_task { tokio::time::sleep(Duration::from_secs(40)).await; t.abort(); }
        // quiescent: no request is between plan and commit. The health loop then runs twice (5 s apart) before the
        // bookkeeping is judged, so that states the loop is designed to repair (a re-registered worker whose
        // pipelines are re-deployed by reconcile_placements) are not reported.
        for _ in 0..2 {
            tokio::time::sleep(Duration::from_secs(5)).await;
            health_tick(&coord).await;
        }
        hb_stop.store(true, std::sync::atomic::Ordering::SeqCst);
        hb.abort();
        net.lock().unwrap().events.push("-- quiescent; health loop ran twice; judging bookkeeping".to_string());
        let c = coord.read().await;
        check_bookkeeping(&c, judge_count)
    });
    varpulis_cluster::verif_http::set_transport(None);
    drop(rt);
    let g = net.lock().unwrap();
    for e in &g.events {
        rep.log(e.clone());
    }
    for (k, v) in &g.faults {
        *rep.faults.entry(k.clone()).or_insert(0) += v;
    }
    let overlapped = overlap.lock().unwrap().1;
    if overlapped {
        rep.probe("requests-overlapped-in-time");
    }
    // signature = the circumstance of this run that a listed known finding needs (most specific first); a run with none
    // of them is judged without any known finding in the way
    let cs = causes.lock().unwrap().clone();
    let lost_replies = g.faults.get("worker-call-reply-lost").copied().unwrap_or(0) > 0;
    // a teardown (or the undeploy half of a migration) whose DELETE call to the worker failed: the coordinator drops
    // the placement anyway while the worker keeps running, and reporting, the pipeline
    let del_issued = g.events.iter().filter(|e| e.starts_with("worker-call DELETE") && e.ends_with(" issued")).count();
    let del_ok = g.events.iter().filter(|e| e.starts_with("worker-call DELETE") && (e.ends_with(" returned 200") || e.ends_with(" returned 204"))).count();
    let delete_failed = del_issued > del_ok; // HTTP error, or no reply at all (timeout)
    let cause = if cs.contains("worker-registered-again") { "worker-registered-again" } else if cs.contains("worker-removed") { "worker-removed" } else if cs.contains("overlapping-requests") { "overlapping-requests" } else if lost_replies { "worker-reply-lost" } else if delete_failed { "undeploy-call-failed" } else { "none" };
    for (class, detail) in findings {
        rep.violate(&class, cause, detail);
    }
    rep.ops += nreq;
    rep.state(vsim_core::rng::mix(&[g.events.len() as u64, overlapped as u64]));
    rep.nontrivial = g.events.iter().filter(|e| e.contains("-> 2")).count() >= 3;
}

// ───────────────────────────── C33 ─────────────────────────────

pub fn run_c33(batch: &str, tape: &mut Tape, rep: &mut Report) {
    let seed = tape.draw(u64::MAX);
    // raft-health-loop: one coordinator in Raft mode; "Sweep" is one iteration of the real health loop
    // (role update, sync_from_raft, sweep, failover ...) and only timing events are generated
    let raft = batch == "raft-health-loop";
    let nworkers = tape.range(1, 4);
    let timeout_s = tape.range(3, 15);
    let nev = tape.range(6, 40);
    rep.config = format!("workers={} heartbeat_timeout={}s events={}", nworkers, timeout_s, nev);
    rep.log(format!("config {}", rep.config));
    let mut seed_bytes = [0u8; 32];
    seed_bytes[..8].copy_from_slice(&seed.to_le_bytes());
    let rt = tokio::runtime::Builder::new_current_thread().enable_time().start_paused(true).rng_seed(tokio::runtime::RngSeed::from_bytes(&seed_bytes)).build().expect("rt");
    let net = new_net(seed ^ 0xc33);
    varpulis_cluster::verif_http::set_transport(Some(transport(net.clone())));
    // reference worker table
    #[derive(Clone, Debug, PartialEq)]
    enum St { Ready, Unhealthy, Draining }
    struct MW { st: St, last_hb_ms: u64, running: usize, max: usize }
    let timeout_ms = timeout_s * 1000;
    // pre-draw the event list so that the async block does not need the tape
    #[derive(Clone, Debug)]
    enum Ev { Advance(u64), Heartbeat(u64), Sweep, Deploy { pin: Option<u64>, n: usize }, Migrate(u64), Drain(u64), Register(u64), Deregister(u64), SetStatus(u64, u8) }
    let mut evs = vec![];
    for _ in 0..nev {
        let w = tape.range(1, nworkers);
        let e = match tape.draw(if raft { 8 } else { 16 }) {
            0..=3 => Ev::Advance(match tape.draw(6) { 0 => 1, 1 => timeout_ms, 2 => timeout_ms - 1, 3 => timeout_ms + 1, 4 => tape.range(1, 20) * 500, _ => tape.range(1, 5) * 1000 }),
            4 | 5 => Ev::Heartbeat(w),
            6 | 7 => Ev::Sweep,
            8 | 9 => Ev::Deploy { pin: if tape.chance(1, 2) { Some(w) } else { None }, n: tape.range(1, 2) as usize },
            10 => Ev::Migrate(w),
            11 => Ev::Drain(w),
            12 => Ev::Register(w),
            13 => Ev::Deregister(w),
            // a status change made by another component (the statement's "status changes"): the worker is put into
            // Draining (mostly), Unhealthy or back to Ready through the public field, as sync_from_raft and drain do
            _ => Ev::SetStatus(w, match tape.draw(4) { 0 => 1, 1 => 2, _ => 0 }),
        };
        evs.push(e);
    }
    let max_pipes = tape.range(1, 3) as usize;
    let violations: Vec<(String, String, String)> = rt.block_on(async {
        let mut v: Vec<(String, String, String)> = vec![];
        let mut log: Vec<String> = vec![];
        start_clock();
        let mut raft_handle = None;
        let (coord, routes) = if raft {
            let rbac = Arc::new(RbacConfig::disabled());
            let peers = vec![crate::cluster::addr(1)];
            let b = varpulis_cluster::raft::bootstrap(1, &peers, None).await.expect("vsim harness: single-node raft bootstrap");
            let mut c = Coordinator::with_raft(b.raft.clone(), b.shared_state.clone(), [(1u64, crate::cluster::addr(1))].into_iter().collect(), None);
            c.heartbeat_timeout = Duration::from_secs(timeout_s);
            let coord: SharedCoordinator = Arc::new(tokio::sync::RwLock::new(c));
            let routes: Routes = varpulis_cluster::api::cluster_routes_with_raft(coord.clone(), rbac, b.raft.clone(), None).map(|r| warp::Reply::into_response(r)).boxed();
            net.lock().unwrap().routes.insert(crate::cluster::host(1), routes.clone());
            tokio::time::sleep(Duration::from_secs(5)).await; // election
            sync_clock();
            raft_handle = Some(b.raft);
            (coord, routes)
        } else {
            standalone(timeout_s)
        };
        let mut model: BTreeMap<u64, MW> = BTreeMap::new();
        let mut now = 0u64;
        let reg = |i: u64| json!({"worker_id": format!("w{}", i), "address": waddr(i), "api_key": "k", "capacity": {"cpu_cores": 4, "pipelines_running": 0, "max_pipelines": max_pipes}});
        for i in 1..=nworkers {
            net.lock().unwrap().workers.insert(whost(i), SimWorker { up: true, ..Default::default() });
            api(&routes, "POST", "/api/v1/cluster/workers/register", Some(reg(i))).await;
            model.insert(i, MW { st: St::Ready, last_hb_ms: 0, running: 0, max: max_pipes });
        }
        let mut groups: Vec<String> = vec![];
        let mut gen = 0u64;
        for (k, e) in evs.iter().enumerate() {
            // Availability = the reference table's status (what this property is about) and, for spare capacity, the
            // coordinator's own running count: how full a worker is, is bookkeeping (C32's subject), not judged here.
            let full: BTreeSet<u64> = { let c = coord.read().await; c.workers.iter().filter(|(_, w)| w.capacity.pipelines_running >= w.capacity.max_pipelines).filter_map(|(id, _)| id.0.trim_start_matches('w').parse().ok()).collect() };
            let avail = |m: &BTreeMap<u64, MW>| -> Vec<u64> { m.iter().filter(|(i, w)| w.st == St::Ready && !full.contains(i)).map(|(i, _)| *i).collect() };
            match e.clone() {
                Ev::Advance(ms) => {
                    tokio::time::advance(Duration::from_millis(ms)).await;
                    now += ms;
                    sync_clock();
                    log.push(format!("#{} t={}ms (+{})", k, now, ms));
                }
                Ev::Heartbeat(w) => {
                    let running = model.get(&w).map(|m| m.running).unwrap_or(0);
                    let r = api(&routes, "POST", &format!("/api/v1/cluster/workers/w{}/heartbeat", w), Some(json!({"events_processed": 0, "pipelines_running": running}))).await;
                    log.push(format!("#{} t={} heartbeat w{} -> {}", k, now, w, r.status));
                    if let Some(m) = model.get_mut(&w) {
                        m.last_hb_ms = now;
                        if m.st == St::Unhealthy { m.st = St::Ready; }
                    }
                }
                Ev::Sweep => {
                    // the sweep of the health loop (without failover, which is exercised by Migrate/Drain below)
                    sync_clock();
                    let marked: Vec<String> = if raft { health_tick(&coord).await } else { let mut c = coord.write().await; c.health_sweep().workers_marked_unhealthy.into_iter().map(|w| w.0).collect() };
                    log.push(format!("#{} t={} {} -> marked {:?}", k, now, if raft { "health-loop iteration (raft mode): sweep" } else { "sweep" }, marked));
                    for (i, m) in model.iter_mut() {
                        if m.st != St::Ready { continue; }
                        let age = now - m.last_hb_ms;
                        let was_marked = marked.contains(&format!("w{}", i));
                        if age > timeout_ms {
                            m.st = St::Unhealthy;
                            if !was_marked { v.push(("stale-worker-not-marked-unhealthy".into(), (if raft { "raft-health-loop" } else { "-" }).into(), format!("t={}ms: w{} last heartbeat {}ms ago > timeout {}ms but the sweep left it Ready", now, i, age, timeout_ms))); }
                        } else if was_marked {
                            let sig = if age == timeout_ms { "exactly-at-timeout" } else { "before-timeout" };
                            v.push(("worker-marked-unhealthy-too-early".into(), sig.into(), format!("t={}ms: w{} last heartbeat {}ms ago <= timeout {}ms but the sweep marked it unhealthy", now, i, age, timeout_ms)));
                            m.st = St::Unhealthy;
                        }
                    }
                }
                Ev::Deploy { pin, n } => {
                    gen += 1;
                    let before = avail(&model);
                    let pipes: Vec<(String, Option<String>, usize)> = (0..n).map(|j| (format!("q{}_{}", gen, j), pin.map(|p| format!("w{}", p)), 1usize)).collect();
                    let r = api(&routes, "POST", "/api/v1/cluster/pipeline-groups", Some(spec(&format!("grp{}", gen), &pipes))).await;
                    log.push(format!("#{} t={} deploy {} pipeline(s) pin={:?} (available before: {:?}) -> {} {}", k, now, n, pin, before, r.status, r.json["placements"]));
                    if r.status / 100 == 2 {
                        if let Some(id) = r.json["id"].as_str() { groups.push(id.to_string()); }
                        let mut filled: BTreeMap<u64, usize> = BTreeMap::new();
                        for p in r.json["placements"].as_array().into_iter().flatten() {
                            let wid: u64 = p["worker_id"].as_str().unwrap_or("w0").trim_start_matches('w').parse().unwrap_or(0);
                            let pname = p["pipeline_name"].as_str().unwrap_or("");
                            let ok_now = model.get(&wid).map(|m| m.st == St::Ready && m.running + filled.get(&wid).copied().unwrap_or(0) < m.max).unwrap_or(false);
                            // availability is judged against the table at plan time (the whole request plans at once)
                            let ok_plan = before.contains(&wid);
                            if !ok_plan {
                                let why = match model.get(&wid) { None => "deregistered", Some(m) if m.st == St::Unhealthy => "unhealthy", Some(m) if m.st == St::Draining => "draining", Some(_) => "full" };
                                // the statement lists unhealthy, draining and deregistered; a full worker is not judged
                                if why != "full" {
                                    v.push(("pipeline-placed-on-unavailable-worker".into(), why.into(), format!("t={}ms: pipeline {} placed on w{} which is {}", now, pname, wid, why)));
                                }
                            }
                            let _ = ok_now;
                            if let Some(p) = pin {
                                if before.contains(&p) && wid != p {
                                    v.push(("pinned-pipeline-not-on-its-pin".into(), "-".into(), format!("t={}ms: pipeline {} pinned to w{} (available) was placed on w{}", now, pname, p, wid)));
                                }
                            }
                            *filled.entry(wid).or_insert(0) += 1;
                            if p["status"].as_str().map(|s| s.to_lowercase().contains("running")).unwrap_or(false) {
                                if let Some(m) = model.get_mut(&wid) { m.running += 1; }
                            }
                        }
                    } else if !before.is_empty() && r.status == 503 {
                        v.push(("deploy-refused-although-workers-available".into(), "-".into(), format!("t={}ms: available {:?} but deploy answered {}", now, before, r.status)));
                    }
                }
                Ev::Migrate(w) => {
                    if let Some(g) = groups.last().cloned() {
                        let info = api(&routes, "GET", &format!("/api/v1/cluster/pipeline-groups/{}", g), None).await;
                        let first = info.json["placements"].as_array().and_then(|a| a.first()).cloned().unwrap_or(Value::Null);
                        let pname = first["pipeline_name"].as_str().unwrap_or("").to_string();
                        let from: u64 = first["worker_id"].as_str().unwrap_or("w0").trim_start_matches('w').parse().unwrap_or(0);
                        if !pname.is_empty() && from != w {
                            let target_ok = model.get(&w).map(|m| m.st == St::Ready).unwrap_or(false);
                            let r = api(&routes, "POST", &format!("/api/v1/cluster/pipelines/{}/{}/migrate", g, pname), Some(json!({"target_worker_id": format!("w{}", w)}))).await;
                            log.push(format!("#{} t={} migrate {} w{} -> w{} (target available: {}) -> {}", k, now, pname, from, w, target_ok, r.status));
                            if r.status / 100 == 2 {
                                if !target_ok {
                                    let why = match model.get(&w) { None => "deregistered", Some(m) if m.st == St::Unhealthy => "unhealthy", Some(m) if m.st == St::Draining => "draining", Some(_) => "full" };
                                    v.push(("pipeline-migrated-to-unavailable-worker".into(), why.into(), format!("t={}ms: {} migrated to w{} which is {}", now, pname, w, why)));
                                }
                                if let Some(m) = model.get_mut(&w) { m.running += 1; }
                                if let Some(m) = model.get_mut(&from) { m.running = m.running.saturating_sub(1); }
                            }
                        }
                    }
                }
                Ev::Drain(w) => {
                    if model.get(&w).map(|m| m.st == St::Draining).unwrap_or(false) {
                        // draining a worker that is already Draining is an idempotent no-op (nothing moves, it stays registered)
                        let r = api(&routes, "POST", &format!("/api/v1/cluster/workers/w{}/drain", w), Some(json!({}))).await;
                        log.push(format!("#{} t={} drain w{} (already draining) -> {}", k, now, w, r.status));
                    } else if model.contains_key(&w) {
                        let before = avail(&model);
                        let placed_before = { let c = coord.read().await; c.pipeline_groups.values().flat_map(|g| g.placements.iter().map(|(n, d)| (n.clone(), d.worker_id.0.clone()))).collect::<BTreeMap<_, _>>() };
                        let r = api(&routes, "POST", &format!("/api/v1/cluster/workers/w{}/drain", w), Some(json!({}))).await;
                        log.push(format!("#{} t={} drain w{} -> {}", k, now, w, r.status));
                        if r.status / 100 == 2 {
                            let placed_after = { let c = coord.read().await; c.pipeline_groups.values().flat_map(|g| g.placements.iter().map(|(n, d)| (n.clone(), d.worker_id.0.clone()))).collect::<BTreeMap<_, _>>() };
                            for (n, wa) in &placed_after {
                                if placed_before.get(n) == Some(&format!("w{}", w)) && wa != &format!("w{}", w) {
                                    let t: u64 = wa.trim_start_matches('w').parse().unwrap_or(0);
                                    if !before.contains(&t) || t == w {
                                        v.push(("pipeline-migrated-to-unavailable-worker".into(), "drain".into(), format!("t={}ms: drain of w{} moved {} to {} which was not available", now, w, n, wa)));
                                    }
                                    if let Some(m) = model.get_mut(&t) { m.running += 1; }
                                }
                            }
                            model.remove(&w);
                        }
                    }
                }
                Ev::Register(w) => {
                    net.lock().unwrap().workers.entry(whost(w)).or_insert(SimWorker { up: true, ..Default::default() }).up = true;
                    let r = api(&routes, "POST", "/api/v1/cluster/workers/register", Some(reg(w))).await;
                    log.push(format!("#{} t={} register w{} -> {}", k, now, w, r.status));
                    if r.status / 100 == 2 {
                        model.insert(w, MW { st: St::Ready, last_hb_ms: now, running: 0, max: max_pipes });
                    }
                }
                Ev::SetStatus(w, code) => {
                    let (st, mst) = match code { 0 => (WorkerStatus::Draining, St::Draining), 1 => (WorkerStatus::Unhealthy, St::Unhealthy), _ => (WorkerStatus::Ready, St::Ready) };
                    let mut c = coord.write().await;
                    if let Some(wk) = c.workers.get_mut(&WorkerId(format!("w{}", w))) {
                        wk.status = st.clone();
                        log.push(format!("#{} t={} status of w{} set to {:?}", k, now, w, st));
                        if let Some(m) = model.get_mut(&w) { m.st = mst; }
                    }
                }
                Ev::Deregister(w) => {
                    let r = api(&routes, "DELETE", &format!("/api/v1/cluster/workers/w{}", w), None).await;
                    log.push(format!("#{} t={} deregister w{} -> {}", k, now, w, r.status));
                    if r.status / 100 == 2 { model.remove(&w); }
                }
            }
            // in Raft mode a missed marking is reported once, not again as a table difference
            if raft && !v.is_empty() { break; }
            // after every event the coordinator's worker statuses equal the reference table
            let c = coord.read().await;
            for (i, m) in &model {
                match c.workers.get(&WorkerId(format!("w{}", i))) {
                    None => v.push(("worker-table-differs-from-reference".into(), "missing".into(), format!("after #{}: w{} is registered in the reference table but not in the coordinator", k, i))),
                    Some(w) => {
                        let st = match w.status { WorkerStatus::Ready => St::Ready, WorkerStatus::Unhealthy => St::Unhealthy, WorkerStatus::Draining => St::Draining, _ => St::Ready };
                        if st != m.st {
                            v.push(("worker-table-differs-from-reference".into(), format!("{:?}-vs-{:?}", w.status, m.st), format!("after #{} ({:?}): coordinator says w{} is {:?}, reference table says {:?}", k, e, i, w.status, m.st)));
                        }
                    }
                }
            }
            if !v.is_empty() { break; }
        }
        if let Some(r) = raft_handle { let _ = r.shutdown().await; }
        for l in log { v.push(("__log".into(), String::new(), l)); }
        v
    });
    varpulis_cluster::verif_http::set_transport(None);
    drop(rt);
    for (class, sig, detail) in violations {
        if class == "__log" { rep.log(detail); } else { rep.violate(&class, &sig, detail); }
    }
    // log lines come after violations in the vector; order them for readability
    rep.ops += nev;
    rep.sim_ns = 0;
    rep.nontrivial = (raft && rep.trace.iter().filter(|l| l.contains("sweep ->")).count() >= 2) || rep.trace.iter().any(|l| l.contains("sweep -> marked [\"")) || rep.trace.iter().filter(|l| l.contains("deploy")).count() >= 2;
}

// ───────────────────────────── C38 ─────────────────────────────

/// What a coordinator shows of the cluster: workers (status, assignments, running count), group placements, connectors.
fn view(c: &Coordinator) -> BTreeMap<String, String> {
    let mut v = BTreeMap::new();
    for (id, w) in &c.workers {
        let mut a = w.assigned_pipelines.clone();
        a.sort();
        v.insert(format!("worker.{}.status", id), w.status.to_string());
        v.insert(format!("worker.{}.assigned_pipelines", id), format!("{:?}", a));
        v.insert(format!("worker.{}.pipelines_running", id), w.capacity.pipelines_running.to_string());
    }
    for (gid, g) in &c.pipeline_groups {
        let mut p: Vec<String> = g.placements.iter().map(|(n, d)| format!("{}@{}:{:?}", n, d.worker_id, d.status)).collect();
        p.sort();
        v.insert(format!("group.{}.placements", g.name.clone() + "/" + &gid[..4.min(gid.len())]), format!("{:?}", p));
    }
    for (n, cn) in &c.connectors {
        v.insert(format!("connector.{}", n), format!("{}/{}:{:?}", cn.name, cn.connector_type, { let mut p: Vec<_> = cn.params.iter().collect(); p.sort(); p }));
    }
    v
}

fn field_kind(k: &str) -> String {
    // worker.w1.status -> worker.status ; group.x.placements -> group.placements ; connector.x -> connector
    let parts: Vec<&str> = k.split('.').collect();
    match parts[0] {
        "worker" => format!("worker.{}", parts.last().unwrap_or(&"")),
        "group" => "group.placements".into(),
        _ => "connector".into(),
    }
}

struct CNode {
    id: u64,
    coord: SharedCoordinator,
    routes: Routes,
    raft: Arc<varpulis_cluster::raft::VarpulisRaft>,
}

/// One iteration of the real health loop on node `n`, with the tracking context installed. false = it did
/// not finish within 120 simulated seconds (the run is then ended without further judgement).
async fn tick_node(n: &CNode, track: &mut Track) -> bool {
    sync_clock();
    HL_TRACK.with(|t| *t.borrow_mut() = Some(std::mem::take(track)));
    let r = tokio::time::timeout(Duration::from_secs(120), health_loop_iteration(&n.coord)).await;
    *track = HL_TRACK.with(|t| t.borrow_mut().take()).expect("vsim harness: tracking context");
    r.is_ok()
}

pub fn run_c38(batch: &str, tape: &mut Tape, rep: &mut Report) {
    let seed = tape.draw(u64::MAX);
    let nnodes: u64 = if batch.starts_with("single") { 1 } else { 3 };
    let quiet = batch.ends_with("replicated-ops");
    let nworkers = tape.range(2, 3);
    let nops = tape.range(1, 10);
    #[derive(Clone, Debug)]
    enum Op { Deploy(u64), Teardown(u64), Migrate(u64, u64), Drain(u64), Rebalance, ConnCreate(u64), ConnUpdate(u64), ConnDelete(u64), WorkerDies(u64), WorkerBack(u64), IsolateLeader, Wait(u64) }
    rep.config = format!("batch={} coordinators={} workers={} ops={}", batch, nnodes, nworkers, nops);
    rep.log(format!("config {}", rep.config));
    let mut seed_bytes = [0u8; 32];
    seed_bytes[..8].copy_from_slice(&seed.to_le_bytes());
    let rt = tokio::runtime::Builder::new_current_thread().enable_time().start_paused(true).rng_seed(tokio::runtime::RngSeed::from_bytes(&seed_bytes)).build().expect("rt");
    let net = new_net(seed ^ 0xc38);
    net.lock().unwrap().cfg.max_latency_ms = *tape.pick(&[0u64, 5, 50]);
    net.lock().unwrap().wcfg.max_latency_ms = 20;
    // in the all-ops batches individual worker calls may fail, so groups end up partially running
    if !quiet { net.lock().unwrap().wcfg.http_error_permille = *tape.pick(&[0u64, 100, 250]); }
    varpulis_cluster::verif_http::set_transport(Some(transport(net.clone())));
    let key = "admin-key".to_string();
    struct Out { reverted: Vec<(String, String)>, log: Vec<String>, probes: Vec<&'static str>, ok_ops: u64, judged: u64, states: Vec<u64> }
    let out: Result<Out, String> = rt.block_on(async {
        start_clock();
        let peers: Vec<String> = (1..=nnodes).map(crate::cluster::addr).collect();
        let peer_map: BTreeMap<u64, String> = (1..=nnodes).map(|i| (i, crate::cluster::addr(i))).collect();
        let rbac = Arc::new(RbacConfig::single_key(key.clone()));
        let mut nodes: Vec<CNode> = vec![];
        for id in 1..=nnodes {
            // the real bootstrap: MemStore, NetworkFactory, openraft config, initialise on node 1
            let b = varpulis_cluster::raft::bootstrap(id, &peers, rbac.any_admin_key()).await.map_err(|e| format!("bootstrap: {e}"))?;
            let mut c = Coordinator::with_raft(b.raft.clone(), b.shared_state.clone(), peer_map.clone(), rbac.any_admin_key());
            c.heartbeat_timeout = Duration::from_secs(15);
            let coord: SharedCoordinator = Arc::new(tokio::sync::RwLock::new(c));
            let routes: Routes = varpulis_cluster::api::cluster_routes_with_raft(coord.clone(), rbac.clone(), b.raft.clone(), None).map(|r| warp::Reply::into_response(r)).boxed();
            net.lock().unwrap().routes.insert(crate::cluster::host(id), routes.clone());
            nodes.push(CNode { id, coord, routes, raft: b.raft });
        }
        tokio::time::sleep(Duration::from_secs(5)).await; // leader election
        let t0 = tokio::time::Instant::now();
        let now_s = move || 5 + t0.elapsed().as_secs();
        // a request is its own task (as under a real server); the caller waits for the reply, at most 120 simulated seconds
        let call = |routes: Routes, method: &'static str, path: String, body: Option<Value>, key: String| async move {
            let mut rq = warp::test::request().method(method).path(&path).header("x-api-key", key);
            if let Some(b) = &body { rq = rq.json(b); }
            sync_clock();
            let h = tokio::spawn(async move { rq.reply(&routes).await });
            match tokio::time::timeout(Duration::from_secs(120), h).await {
                Ok(r) => { let r = r.expect("request task"); Some(Resp { status: r.status().as_u16(), json: serde_json::from_slice(r.body()).unwrap_or(Value::Null) }) }
                Err(_) => None,
            }
        };
        let mut log: Vec<String> = vec![];
        let mut probes: Vec<&'static str> = vec![];
        let mut tracks: Vec<Track> = nodes.iter().map(|n| Track { node: n.id, ..Default::default() }).collect();
        // attribute every view difference on every coordinator to the step that just finished
        macro_rules! attribute {
            ($cause:expr) => {
                for (i, n) in nodes.iter().enumerate() {
                    let v = view(&*n.coord.read().await);
                    tracks[i].attribute($cause, v);
                }
            };
        }
        attribute!("bootstrap");
        for t in tracks.iter_mut() { t.cause.clear(); }
        let reg_body = |i: u64| json!({"worker_id": format!("w{}", i), "address": waddr(i), "api_key": "k", "capacity": {"cpu_cores": 4, "pipelines_running": 0, "max_pipelines": 10}});
        // workers register at their home coordinator (any node; followers forward to the leader)
        for i in 1..=nworkers {
            net.lock().unwrap().workers.insert(whost(i), SimWorker { up: true, ..Default::default() });
            let home = &nodes[((i - 1) % nnodes) as usize];
            let r = call(home.routes.clone(), "POST", "/api/v1/cluster/workers/register".into(), Some(reg_body(i)), key.clone()).await;
            log.push(format!("register w{} at node {} -> {}", i, home.id, r.map(|r| r.status).unwrap_or(0)));
            attribute!("register");
        }
        let first_leader = nodes[0].raft.metrics().borrow().current_leader;
        let mut groups: BTreeMap<u64, (String, String)> = BTreeMap::new();
        let mut issued = 0u64;
        let mut conns: BTreeSet<u64> = BTreeSet::new();
        let mut gone: BTreeSet<u64> = BTreeSet::new(); // workers drained away or dead
        let mut gen = 0u64;
        let mut ok_ops = 0u64;
        let mut wait_until = 0u64;
        let mut blocked = false;
        let end = 5 + nops * 5 + 50;
        let mut t_s = 5u64;
        // One simulated second at a time, strictly one step at a time so that every change of a coordinator's view
        // has exactly one cause: heartbeats at t = 1 (mod 5), the health loop of every coordinator at t = 0 (mod 5),
        // one operation at t = 3 (mod 5). Healing of a partition is a timer of its own.
        while t_s < end && !blocked {
            tokio::time::sleep(Duration::from_secs(1)).await;
            t_s += 1;
            sync_clock();
            if t_s % 5 == 1 {
                let ws: Vec<(u64, usize)> = (1..=nworkers).filter_map(|i| net.lock().unwrap().workers.get(&whost(i)).filter(|w| w.up).map(|w| (i, w.pipelines.len()))).collect();
                for (i, n) in ws {
                    let routes = nodes[((i - 1) % nnodes) as usize].routes.clone();
                    if call(routes, "POST", format!("/api/v1/cluster/workers/w{}/heartbeat", i), Some(json!({"events_processed": 0, "pipelines_running": n})), key.clone()).await.is_none() { blocked = true; probes.push("step-blocked"); break; }
                    attribute!("heartbeat");
                }
            }
            if t_s % 5 == 0 && t_s >= 10 {
                for i in 0..nodes.len() {
                    if !tick_node(&nodes[i], &mut tracks[i]).await { blocked = true; probes.push("step-blocked"); break; }
                    // a tick of one coordinator does not touch another coordinator's view; if it ever did, name it
                    attribute!("tick-of-another-coordinator");
                }
            }
            if t_s % 5 == 3 && t_s >= wait_until {
                if issued >= nops { continue; }
                issued += 1;
                // the next operation is drawn against what exists now (mostly valid targets, sometimes not)
                let w = tape.range(1, nworkers);
                let slot = if !groups.is_empty() && tape.chance(3, 4) { *groups.keys().nth(tape.draw(groups.len() as u64) as usize).unwrap() } else { tape.draw(2) };
                let ck = if !conns.is_empty() && tape.chance(3, 4) { *conns.iter().nth(tape.draw(conns.len() as u64) as usize).unwrap() } else { tape.draw(3) };
                let op = if quiet {
                    match tape.draw(6) { 0 | 1 => Op::ConnCreate(tape.draw(3)), 2 => Op::ConnUpdate(ck), 3 => Op::ConnDelete(ck), 4 => Op::Teardown(slot), _ => Op::Wait(tape.range(1, 2)) }
                } else if groups.is_empty() && tape.chance(1, 2) {
                    Op::Deploy(tape.draw(2))
                } else {
                    match tape.draw(14) {
                        0 => Op::ConnCreate(tape.draw(3)),
                        1 => Op::ConnUpdate(ck),
                        2 => Op::ConnDelete(ck),
                        3 => Op::Teardown(slot),
                        4 => Op::Wait(tape.range(1, 3)),
                        5 | 6 => Op::Deploy(tape.draw(2)),
                        7 | 8 => Op::Migrate(slot, w),
                        9 => Op::Drain(w),
                        10 => Op::Rebalance,
                        11 => Op::WorkerDies(w),
                        12 => Op::WorkerBack(if !gone.is_empty() && tape.chance(3, 4) { *gone.iter().nth(tape.draw(gone.len() as u64) as usize).unwrap() } else { w }),
                        _ => if nnodes > 1 { Op::IsolateLeader } else { Op::Rebalance },
                    }
                };
                let tgt = tape.draw(nnodes);
                gen += 1;
                let target = &nodes[tgt as usize];
                let leader_now = nodes[0].raft.metrics().borrow().current_leader;
                if Some(target.id) != leader_now { probes.push("op-sent-to-follower"); }
                let res: Option<u16> = match &op {
                    Op::WorkerDies(w) => {
                        if let Some(x) = net.lock().unwrap().workers.get_mut(&whost(*w)) { x.up = false; x.pipelines.clear(); }
                        gone.insert(*w);
                        net.lock().unwrap().fault("worker-died");
                        log.push(format!("t={}s worker w{} dies", now_s(), w));
                        continue;
                    }
                    Op::IsolateLeader => {
                        let leader = leader_now.unwrap_or(1);
                        {
                            let mut g = net.lock().unwrap();
                            g.isolated.clear();
                            g.isolated.insert(leader);
                            g.fault("partition-leader");
                        }
                        let net2 = net.clone();
                        tokio::spawn(async move {
                            tokio::time::sleep(Duration::from_secs(8)).await;
                            let mut g = net2.lock().unwrap();
                            g.isolated.clear();
                            g.fault("heal");
                        });
                        log.push(format!("t={}s leader node {} cut off from the other coordinators for 8 s", now_s(), leader));
                        continue;
                    }
                    Op::Wait(n) => { wait_until = t_s + n * 5; log.push(format!("t={}s (no operation for {} rounds)", now_s(), n)); continue; }
                    Op::Deploy(slot) => {
                        let pipes = vec![(format!("p{}a_{}", slot, gen), None, 1usize), (format!("p{}b_{}", slot, gen), None, 1)];
                        let r = call(target.routes.clone(), "POST", "/api/v1/cluster/pipeline-groups".into(), Some(spec(&format!("g{}", slot), &pipes)), key.clone()).await;
                        if let Some(r) = &r { if r.status / 100 == 2 { if let Some(id) = r.json["id"].as_str() { groups.insert(*slot, (id.to_string(), format!("p{}a_{}", slot, gen))); } } }
                        r.map(|r| r.status)
                    }
                    Op::Teardown(slot) => match groups.remove(slot) { Some((g, _)) => call(target.routes.clone(), "DELETE", format!("/api/v1/cluster/pipeline-groups/{}", g), None, key.clone()).await.map(|r| r.status), None => Some(0) },
                    Op::Migrate(slot, w) => match groups.get(slot).cloned() { Some((g, p)) => call(target.routes.clone(), "POST", format!("/api/v1/cluster/pipelines/{}/{}/migrate", g, p), Some(json!({"target_worker_id": format!("w{}", w)})), key.clone()).await.map(|r| r.status), None => Some(0) },
                    Op::Drain(w) => { let r = call(target.routes.clone(), "POST", format!("/api/v1/cluster/workers/w{}/drain", w), Some(json!({})), key.clone()).await.map(|r| r.status); if r == Some(200) { gone.insert(*w); } r }
                    Op::Rebalance => call(target.routes.clone(), "POST", "/api/v1/cluster/rebalance".into(), None, key.clone()).await.map(|r| r.status),
                    Op::ConnCreate(k) => { let r = call(target.routes.clone(), "POST", "/api/v1/cluster/connectors".into(), Some(json!({"name": format!("conn{}", k), "connector_type": "mqtt", "params": {"host": format!("h{}", gen)}})), key.clone()).await.map(|r| r.status); if r.map(|s| s / 100 == 2).unwrap_or(false) { conns.insert(*k); } r }
                    Op::ConnUpdate(k) => {
                        // the body's own name need not repeat the path name (the handlers accept both)
                        let body_name = if tape.chance(1, 3) { format!("conn{}_renamed", k) } else { format!("conn{}", k) };
                        if body_name.ends_with("_renamed") { log.push(format!("t={}s (the next update's body carries the name {})", now_s(), body_name)); }
                        call(target.routes.clone(), "PUT", format!("/api/v1/cluster/connectors/conn{}", k), Some(json!({"name": body_name, "connector_type": "mqtt", "params": {"host": format!("u{}", gen)}})), key.clone()).await.map(|r| r.status)
                    }
                    Op::ConnDelete(k) => { let r = call(target.routes.clone(), "DELETE", format!("/api/v1/cluster/connectors/conn{}", k), None, key.clone()).await.map(|r| r.status); if r.map(|s| s / 100 == 2).unwrap_or(false) { conns.remove(k); } r }
                    Op::WorkerBack(w) => {
                        // a dead worker restarts (empty) and registers again; a drained-away or live one simply registers again
                        let was_down = net.lock().unwrap().workers.get(&whost(*w)).map(|x| !x.up).unwrap_or(false);
                        if was_down || gone.contains(w) || tape.chance(1, 4) {
                            gone.remove(w);
                            if was_down { net.lock().unwrap().workers.get_mut(&whost(*w)).unwrap().up = true; }
                            net.lock().unwrap().fault(if was_down { "worker-restarted" } else { "worker-re-registered" });
                            let home = &nodes[((w - 1) % nnodes) as usize];
                            call(home.routes.clone(), "POST", "/api/v1/cluster/workers/register".into(), Some(reg_body(*w)), key.clone()).await.map(|r| r.status)
                        } else { Some(0) }
                    }
                };
                let cause = match &op { Op::Deploy(_) => "deploy", Op::Teardown(_) => "teardown", Op::Migrate(..) => "manual-migrate", Op::Drain(_) => "drain", Op::Rebalance => "rebalance-request", Op::ConnCreate(_) => "connector-create", Op::ConnUpdate(_) => "connector-update", Op::ConnDelete(_) => "connector-delete", Op::WorkerBack(_) => "worker-re-register", _ => "other" };
                match res {
                    None => { blocked = true; probes.push("step-blocked"); log.push(format!("t={}s op #{} {:?} at node {} -> no reply within 120 s; run ended", now_s(), gen, op, target.id)); }
                    Some(st) => {
                        if st / 100 == 2 { ok_ops += 1; }
                        log.push(format!("t={}s op #{} {:?} at node {} -> {}", now_s(), gen, op, target.id, st));
                        attribute!(cause);
                    }
                }
            }
        }
        let mut reverted: Vec<(String, String)> = vec![];
        let mut judged = 0;
        for t in tracks.iter_mut() {
            judged += t.syncs_judged;
            reverted.append(&mut t.reverted);
        }
        {
            // one line per distinct (field, step) pair: the heartbeat-driven ones recur at every tick
            let mut seen = BTreeSet::new();
            for (sig, d) in &reverted {
                let key = format!("{}|{}", sig, d.split(" was ").next().unwrap_or(""));
                if seen.insert(key) { log.push(d.clone()); }
            }
        }
        let last_leader = nodes[0].raft.metrics().borrow().current_leader;
        if last_leader != first_leader { probes.push("leader-changed"); }
        // quiescence: a follower's view equals the leader's
        let mut states = vec![];
        if nnodes > 1 && !blocked {
            let leader_id = nodes.iter().find_map(|n| { let m = n.raft.metrics().borrow().clone(); if m.current_leader == Some(m.id) { Some(m.id) } else { None } });
            if let Some(l) = leader_id {
                let lv = view(&*nodes[(l - 1) as usize].coord.read().await);
                states.push(vsim_core::rng::hash_str(&format!("{:?}", lv.keys().map(|k| field_kind(k)).collect::<BTreeSet<_>>())));
                for n in nodes.iter() {
                    if n.id == l { continue; }
                    let fv = view(&*n.coord.read().await);
                    for (k, a) in &lv {
                        if k.ends_with("pipelines_running") { continue; }
                        if fv.get(k) != Some(a) {
                            reverted.push((format!("FOLLOWER|{}", field_kind(k)), format!("at quiescence node {} (follower) shows {} = {:?}, leader node {} shows {}", n.id, k, fv.get(k), l, a)));
                        }
                    }
                    for k in fv.keys() {
                        if !lv.contains_key(k) {
                            reverted.push((format!("FOLLOWER|{}", field_kind(k)), format!("at quiescence node {} (follower) shows {} which the leader does not have", n.id, k)));
                        }
                    }
                }
                probes.push("follower-views-compared");
            }
        }
        for n in nodes.iter() {
            let _ = n.raft.shutdown().await;
        }
        Ok(Out { reverted, log, probes, ok_ops, judged, states })
    });
    varpulis_cluster::verif_http::set_transport(None);
    drop(rt);
    let g = net.lock().unwrap();
    for (k, v) in &g.faults { *rep.faults.entry(k.clone()).or_insert(0) += v; }
    match out {
        Err(e) => rep.violate("harness-cluster-setup", "-", e),
        Ok(o) => {
            for l in o.log { rep.log(l); }
            for p in o.probes { rep.probe(p); }
            for s in o.states { rep.state(s); }
            *rep.probes.entry("syncs-judged-on-a-leader".into()).or_insert(0) += o.judged;
            rep.nontrivial = o.ok_ops >= 2 && o.judged >= 2;
            let mut seen = BTreeSet::new();
            for (kind, detail) in o.reverted {
                if let Some(k) = kind.strip_prefix("FOLLOWER|") {
                    if seen.insert(format!("F{}", k)) { rep.violate("follower-view-differs-from-leader", k, detail); }
                } else if seen.insert(kind.clone()) {
                    rep.state(vsim_core::rng::hash_str(&kind));
                    rep.violate("sync-from-raft-reverted-a-change", &kind, detail);
                }
            }
        }
    }
    rep.ops += nops;
}
