//! W6 cluster: three real openraft 0.9.21 nodes with varpulis' real stores, state machine,
//! NetworkFactory/NetworkClient and raft_routes, on a simulated network (the H3 transport)
//! and a paused tokio clock. C37: replicas agree at every applied index; acknowledged writes
//! are never lost.

use std::collections::{BTreeMap, BTreeSet, HashMap};
use std::fmt::Debug;
use std::ops::RangeBounds;
use std::sync::{Arc, Mutex};
use std::time::Duration;

use openraft::storage::{Adaptor, LogState, RaftStorage};
use openraft::{Entry, LogId, RaftLogReader, Snapshot, SnapshotMeta, StorageError, StoredMembership, Vote};
use serde_json::Value;
use varpulis_cluster::connector_config::ClusterConnector;
use varpulis_cluster::raft::persistent_store::RocksStore;
use varpulis_cluster::raft::store::{MemStore, SharedCoordinatorState};
use varpulis_cluster::raft::{ClusterCommand, ClusterResponse, NodeId, RaftNode, TypeConfig, VarpulisRaft};
use varpulis_cluster::verif_http::{SimFuture, SimRequest, SimResponse};
use vsim_core::rng::Rng;
use vsim_core::{Report, Tape};

// ───────────────────────── observing wrapper around the real store ─────────────────────────

/// (applied index → hash and text of the state machine right after that apply / install)
pub type History = Arc<Mutex<BTreeMap<u64, (u64, String)>>>;

/// Delegates every call to the real store and records the published state after each
/// apply batch / snapshot install. Adds no behaviour.
pub struct Observed<S> {
    inner: S,
    shared: SharedCoordinatorState,
    hist: History,
    installs: Arc<std::sync::atomic::AtomicU64>,
}

fn record(shared: &SharedCoordinatorState, hist: &History, at: Option<LogId<NodeId>>) {
    if let Some(l) = at {
        let v = serde_json::to_value(&*shared.read().unwrap()).unwrap_or(Value::Null);
        let s = v.to_string();
        hist.lock().unwrap().insert(l.index, (vsim_core::rng::hash_str(&s), s));
    }
}

impl<S: RaftStorage<TypeConfig>> RaftLogReader<TypeConfig> for Observed<S> {
    async fn try_get_log_entries<RB: RangeBounds<u64> + Clone + Debug + Send>(&mut self, range: RB) -> Result<Vec<Entry<TypeConfig>>, StorageError<NodeId>> {
        self.inner.try_get_log_entries(range).await
    }
}

impl<S: RaftStorage<TypeConfig>> RaftStorage<TypeConfig> for Observed<S> {
    type LogReader = S::LogReader;
    type SnapshotBuilder = S::SnapshotBuilder;
    async fn save_vote(&mut self, vote: &Vote<NodeId>) -> Result<(), StorageError<NodeId>> {
        self.inner.save_vote(vote).await
    }
    async fn read_vote(&mut self) -> Result<Option<Vote<NodeId>>, StorageError<NodeId>> {
        self.inner.read_vote().await
    }
    async fn get_log_state(&mut self) -> Result<LogState<TypeConfig>, StorageError<NodeId>> {
        self.inner.get_log_state().await
    }
    async fn get_log_reader(&mut self) -> Self::LogReader {
        self.inner.get_log_reader().await
    }
    async fn append_to_log<I>(&mut self, entries: I) -> Result<(), StorageError<NodeId>>
    where
        I: IntoIterator<Item = Entry<TypeConfig>> + Send,
    {
        self.inner.append_to_log(entries).await
    }
    async fn delete_conflict_logs_since(&mut self, log_id: LogId<NodeId>) -> Result<(), StorageError<NodeId>> {
        self.inner.delete_conflict_logs_since(log_id).await
    }
    async fn purge_logs_upto(&mut self, log_id: LogId<NodeId>) -> Result<(), StorageError<NodeId>> {
        self.inner.purge_logs_upto(log_id).await
    }
    async fn last_applied_state(&mut self) -> Result<(Option<LogId<NodeId>>, StoredMembership<NodeId, RaftNode>), StorageError<NodeId>> {
        self.inner.last_applied_state().await
    }
    async fn apply_to_state_machine(&mut self, entries: &[Entry<TypeConfig>]) -> Result<Vec<ClusterResponse>, StorageError<NodeId>> {
        let r = self.inner.apply_to_state_machine(entries).await;
        record(&self.shared, &self.hist, entries.last().map(|e| e.log_id));
        r
    }
    async fn get_snapshot_builder(&mut self) -> Self::SnapshotBuilder {
        self.inner.get_snapshot_builder().await
    }
    async fn begin_receiving_snapshot(&mut self) -> Result<Box<std::io::Cursor<Vec<u8>>>, StorageError<NodeId>> {
        self.inner.begin_receiving_snapshot().await
    }
    async fn install_snapshot(&mut self, meta: &SnapshotMeta<NodeId, RaftNode>, snapshot: Box<std::io::Cursor<Vec<u8>>>) -> Result<(), StorageError<NodeId>> {
        let r = self.inner.install_snapshot(meta, snapshot).await;
        self.installs.fetch_add(1, std::sync::atomic::Ordering::SeqCst);
        record(&self.shared, &self.hist, meta.last_log_id);
        r
    }
    async fn get_current_snapshot(&mut self) -> Result<Option<Snapshot<TypeConfig>>, StorageError<NodeId>> {
        self.inner.get_current_snapshot().await
    }
}

// ───────────────────────── clock coupling ─────────────────────────

static T0: Mutex<Option<tokio::time::Instant>> = Mutex::new(None);

/// The paused tokio clock is the simulation's time. Code that reads std/chrono clocks goes through the
/// link-level seam, which is moved to the same instant whenever the simulator hands control to varpulis
/// code (RPC delivery, client call, every quantum of the main loop).
pub fn sync_clock() {
    let t0 = *T0.lock().unwrap();
    if let Some(t0) = t0 {
        let el = tokio::time::Instant::now().saturating_duration_since(t0).as_nanos() as i64;
        vsim_core::clock::set_mono_ns(vsim_core::clock::MONO_BASE_NS + el);
    }
}
pub fn start_clock() {
    *T0.lock().unwrap() = Some(tokio::time::Instant::now());
    sync_clock();
}

// ───────────────────────── simulated network ─────────────────────────

pub type Routes = warp::filters::BoxedFilter<(warp::reply::Response,)>;

pub struct NetCfg {
    pub drop_permille: u64,
    pub reply_loss_permille: u64,
    pub max_latency_ms: u64,
    pub slow_permille: u64,
}

/// A model of a worker process (not the worker): keeps its own set of deployed pipelines and answers the
/// coordinator's deploy/delete/checkpoint/restore/inject calls truthfully unless a fault says otherwise.
#[derive(Default, Clone, Debug)]
pub struct SimWorker {
    pub up: bool,
    pub next: u64,
    /// pipeline id -> name
    pub pipelines: BTreeMap<String, String>,
}

#[derive(Default, Clone)]
pub struct WorkerFaultCfg {
    pub http_error_permille: u64,
    pub timeout_permille: u64,
    pub reply_lost_permille: u64,
    pub max_latency_ms: u64,
}

impl SimWorker {
    pub fn handle(&mut self, host: &str, method: &str, path: &str, body: &[u8]) -> (u16, Value) {
        let parts: Vec<&str> = path.trim_start_matches('/').split('/').collect();
        // api/v1/pipelines[/<id>[/<verb>]]
        if parts.len() < 3 || parts[0] != "api" || parts[2] != "pipelines" {
            return (404, serde_json::json!({"error": "not found"}));
        }
        match (method, parts.len()) {
            ("POST", 3) => {
                let v: Value = serde_json::from_slice(body).unwrap_or(Value::Null);
                let name = v["name"].as_str().unwrap_or("?").to_string();
                self.next += 1;
                let id = format!("pid-{}-{}", host.split(':').next().unwrap_or("w"), self.next);
                self.pipelines.insert(id.clone(), name.clone());
                (201, serde_json::json!({"id": id, "name": name, "status": "running"}))
            }
            ("DELETE", 4) => {
                if self.pipelines.remove(parts[3]).is_some() { (200, serde_json::json!({"deleted": true})) } else { (404, serde_json::json!({"error": "pipeline not found"})) }
            }
            ("POST", 5) if parts[4] == "checkpoint" => {
                if self.pipelines.contains_key(parts[3]) {
                    (200, serde_json::json!({"pipeline_id": parts[3], "events_processed": 0,
                        "checkpoint": {"version": 1, "window_states": {}, "sase_states": {}, "join_states": {}, "variables": {}, "events_processed": 0, "output_events_emitted": 0}}))
                } else {
                    (404, serde_json::json!({"error": "pipeline not found"}))
                }
            }
            ("POST", 5) if parts[4] == "restore" => {
                if self.pipelines.contains_key(parts[3]) { (200, serde_json::json!({"pipeline_id": parts[3], "restored": true, "events_restored": 0})) } else { (404, serde_json::json!({"error": "pipeline not found"})) }
            }
            ("POST", 5) => (200, serde_json::json!({"accepted": true, "output_events": []})),
            _ => (404, serde_json::json!({"error": "not found"})),
        }
    }
}

pub struct Net {
    pub rng: Rng,
    pub cfg: NetCfg,
    /// host ("w1:9000") → simulated worker
    pub workers: BTreeMap<String, SimWorker>,
    pub wcfg: WorkerFaultCfg,
    /// (request, phase) events: the interleaving fingerprint of coordinator runs
    pub events: Vec<String>,
    /// host ("c1:9100") → handler; absent = process down (connection refused)
    pub routes: HashMap<String, Routes>,
    /// isolated nodes (by raft node id): no traffic in or out
    pub isolated: BTreeSet<u64>,
    /// stalled nodes: every RPC to/from them takes seconds
    pub stalled: BTreeSet<u64>,
    pub faults: BTreeMap<String, u64>,
    pub delivered: u64,
    pub log: Vec<String>,
}

impl Net {
    pub fn fault(&mut self, k: &str) {
        *self.faults.entry(k.to_string()).or_insert(0) += 1;
    }
}

fn host_of(url: &str) -> (String, String) {
    let rest = url.trim_start_matches("http://").trim_start_matches("https://");
    match rest.find('/') {
        Some(i) => (rest[..i].to_string(), rest[i..].to_string()),
        None => (rest.to_string(), "/".to_string()),
    }
}

fn node_of_host(h: &str) -> u64 {
    // hosts are "c<id>:9100" for coordinators
    h.trim_start_matches('c').split(':').next().and_then(|s| s.parse().ok()).unwrap_or(0)
}

/// The transport installed behind the reqwest stand-in: decides fate and latency of every RPC.
pub fn transport(net: Arc<Mutex<Net>>) -> varpulis_cluster::verif_http::Transport {
    Arc::new(move |req: SimRequest| -> SimFuture {
        let net = net.clone();
        let timeout = req.timeout.unwrap_or(Duration::from_secs(30));
        // like the real client, give up when the whole exchange exceeds the client's timeout (this also bounds
        // chains of coordinators forwarding a request to each other while leadership is unsettled)
        Box::pin(async move {
            match tokio::time::timeout(timeout, deliver(net, req)).await {
                Ok(r) => r,
                Err(_) => Err("operation timed out".to_string()),
            }
        })
    })
}

fn deliver(net: Arc<Mutex<Net>>, req: SimRequest) -> SimFuture {
        Box::pin(async move {
            let (host, path) = host_of(&req.url);
            if host.starts_with('w') {
                return worker_call(net, host, path, req).await;
            }
            let dst = node_of_host(&host);
            // raft RPC bodies carry the sender in vote.leader_id.node_id
            let src = serde_json::from_slice::<Value>(&req.body).ok().and_then(|v| v["vote"]["leader_id"]["node_id"].as_u64()).unwrap_or(0);
            let timeout = req.timeout.unwrap_or(Duration::from_secs(5));
            enum Fate {
                Refused,
                Blackhole,
                Deliver { lat1: u64, lat2: u64, lose_reply: bool },
            }
            let fate = {
                let mut n = net.lock().unwrap();
                if n.isolated.contains(&dst) || (src != 0 && n.isolated.contains(&src)) {
                    n.fault("rpc-lost-in-partition");
                    Fate::Blackhole
                } else if !n.routes.contains_key(&host) {
                    n.fault("rpc-to-down-node");
                    Fate::Refused
                } else if { let d = n.cfg.drop_permille; n.rng.below(1000) < d } {
                    n.fault("rpc-dropped");
                    Fate::Blackhole
                } else {
                    let stalled = n.stalled.contains(&dst) || n.stalled.contains(&src);
                    let base = if stalled {
                        n.fault("rpc-through-stalled-node");
                        1000 + n.rng.below(3000)
                    } else if { let d = n.cfg.slow_permille; n.rng.below(1000) < d } {
                        n.fault("rpc-slow");
                        500 + n.rng.below(2500)
                    } else {
                        let m = n.cfg.max_latency_ms + 1;
                        n.rng.below(m)
                    };
                    let m2 = n.cfg.max_latency_ms + 1;
                    let lat2 = n.rng.below(m2);
                    let lose_reply = { let d = n.cfg.reply_loss_permille; n.rng.below(1000) < d };
                    if lose_reply {
                        n.fault("rpc-reply-lost");
                    }
                    // no exchange is instantaneous: at least 1 ms each way, so that simulated time always advances
                    Fate::Deliver { lat1: base.max(1), lat2: lat2.max(1), lose_reply }
                }
            };
            match fate {
                Fate::Refused => {
                    tokio::time::sleep(Duration::from_millis(1)).await;
                    Err("error trying to connect: connection refused".to_string())
                }
                Fate::Blackhole => {
                    tokio::time::sleep(timeout).await;
                    Err("operation timed out".to_string())
                }
                Fate::Deliver { lat1, lat2, lose_reply } => {
                    if Duration::from_millis(lat1) >= timeout {
                        tokio::time::sleep(timeout).await;
                        return Err("operation timed out".to_string());
                    }
                    tokio::time::sleep(Duration::from_millis(lat1)).await;
                    // the destination may have gone down or been cut off while the request was in flight
                    let routes = {
                        let n = net.lock().unwrap();
                        if n.isolated.contains(&dst) { None } else { n.routes.get(&host).cloned() }
                    };
                    let Some(routes) = routes else {
                        tokio::time::sleep(timeout.saturating_sub(Duration::from_millis(lat1))).await;
                        return Err("operation timed out".to_string());
                    };
                    let mut rq = warp::test::request().method(&req.method).path(&path).body(req.body.clone());
                    for (k, v) in &req.headers {
                        rq = rq.header(k.as_str(), v.as_str());
                    }
                    sync_clock();
                    // run the destination's handler as its own task: a handler that itself issues requests (a follower
                    // forwarding to the leader) must not nest warp::test calls inside one poll
                    let resp = match tokio::spawn(async move { rq.reply(&routes).await }).await {
                        Ok(r) => r,
                        Err(_) => return Err("connection reset by peer".to_string()),
                    };
                    net.lock().unwrap().delivered += 1;
                    if std::env::var("VSIM_DEBUG").is_ok() {
                        let d = net.lock().unwrap().delivered;
                        if d % 500 == 0 {
                            eprintln!("delivered #{} {} {} -> {} {} (now {:?})", d, host, path, resp.status(), String::from_utf8_lossy(&resp.body()[..resp.body().len().min(200)]), tokio::time::Instant::now());
                        }
                    }
                    if lose_reply || Duration::from_millis(lat1 + lat2) >= timeout {
                        tokio::time::sleep(timeout.saturating_sub(Duration::from_millis(lat1))).await;
                        return Err("operation timed out".to_string());
                    }
                    tokio::time::sleep(Duration::from_millis(lat2)).await;
                    let headers = resp.headers().iter().map(|(k, v)| (k.to_string(), v.to_str().unwrap_or("").to_string())).collect();
                    Ok(SimResponse { status: resp.status().as_u16(), headers, body: resp.body().to_vec() })
                }
            }
        })
}

async fn worker_call(net: Arc<Mutex<Net>>, host: String, path: String, req: SimRequest) -> Result<SimResponse, String> {
    let timeout = req.timeout.unwrap_or(Duration::from_secs(10));
    enum F { Refused, Timeout, Error500, Ok { lost: bool } }
    let (fate, lat) = {
        let mut n = net.lock().unwrap();
        let up = n.workers.get(&host).map(|w| w.up).unwrap_or(false);
        let m = n.wcfg.max_latency_ms + 1;
        let lat = n.rng.below(m);
        let r = n.rng.below(1000);
        let (a, b, c) = (n.wcfg.timeout_permille, n.wcfg.http_error_permille, n.wcfg.reply_lost_permille);
        let fate = if !up { n.fault("worker-call-refused"); F::Refused }
            else if r < a { n.fault("worker-call-timeout"); F::Timeout }
            else if r < a + b { n.fault("worker-call-http-500"); F::Error500 }
            else if r < a + b + c { n.fault("worker-call-reply-lost"); F::Ok { lost: true } }
            else { F::Ok { lost: false } };
        n.events.push(format!("worker-call {} {} {} issued", req.method, host, path));
        (fate, lat)
    };
    tokio::time::sleep(Duration::from_millis(lat)).await;
    let out = match fate {
        F::Refused => Err("error trying to connect: connection refused".to_string()),
        F::Timeout => { tokio::time::sleep(timeout).await; Err("operation timed out".to_string()) }
        F::Error500 => Ok(SimResponse { status: 500, headers: vec![], body: b"{\"error\":\"injected worker failure\"}".to_vec() }),
        F::Ok { lost } => {
            let (status, body) = {
                let mut n = net.lock().unwrap();
                let w = n.workers.get_mut(&host).unwrap();
                w.handle(&host, &req.method, &path, &req.body)
            };
            if lost { tokio::time::sleep(timeout).await; Err("operation timed out".to_string()) }
            else { Ok(SimResponse { status, headers: vec![("content-type".into(), "application/json".into())], body: body.to_string().into_bytes() }) }
        }
    };
    net.lock().unwrap().events.push(format!("worker-call {} {} {} returned {}", req.method, host, path, match &out { Ok(r) => r.status.to_string(), Err(e) => e.clone() }));
    out
}

// ───────────────────────── nodes ─────────────────────────

pub struct Node {
    pub id: u64,
    pub raft: Option<Arc<VarpulisRaft>>,
    pub shared: Option<SharedCoordinatorState>,
    pub hist: History,
    pub rocks_dir: Option<std::path::PathBuf>,
    pub incarnation: u64,
    pub installs: Arc<std::sync::atomic::AtomicU64>,
}

pub fn addr(id: u64) -> String {
    format!("http://c{}:9100", id)
}
pub fn host(id: u64) -> String {
    format!("c{}:9100", id)
}

pub struct ClusterCfg {
    pub rocks: bool,
    pub snapshot_every: Option<u64>,
    pub admin_key: Option<String>,
}

/// The body of `raft::bootstrap_with_storage`, transcribed so that the store can be wrapped by
/// `Observed` (the real function is private and builds the store itself). Same Config values, same
/// NetworkFactory, same "only node 1 initialises" rule.
pub async fn start_node(n: &mut Node, cfg: &ClusterCfg, peers: &[String], net: &Arc<Mutex<Net>>) -> Result<(), String> {
    let mut config = openraft::Config { heartbeat_interval: 500, election_timeout_min: 1500, election_timeout_max: 3000, ..Default::default() };
    if let Some(k) = cfg.snapshot_every {
        config.snapshot_policy = openraft::SnapshotPolicy::LogsSinceLast(k);
        config.max_in_snapshot_log_to_keep = 1;
        config.purge_batch_size = 1;
    }
    let config = Arc::new(config.validate().map_err(|e| e.to_string())?);
    let network = varpulis_cluster::raft::network::NetworkFactory::new(cfg.admin_key.clone());
    let raft = if cfg.rocks {
        let dir = n.rocks_dir.clone().expect("rocks dir");
        let path = format!("{}/node-{}", dir.to_str().unwrap(), n.id);
        let (store, shared) = RocksStore::open_with_shared_state(&path)?;
        let obs = Observed { inner: store, shared: shared.clone(), hist: n.hist.clone(), installs: n.installs.clone() };
        n.shared = Some(shared);
        let (ls, sm) = Adaptor::new(obs);
        openraft::Raft::new(n.id, config, network, ls, sm).await.map_err(|e| format!("Raft::new: {e}"))?
    } else {
        let (store, shared) = MemStore::with_shared_state();
        let obs = Observed { inner: store, shared: shared.clone(), hist: n.hist.clone(), installs: n.installs.clone() };
        n.shared = Some(shared);
        let (ls, sm) = Adaptor::new(obs);
        openraft::Raft::new(n.id, config, network, ls, sm).await.map_err(|e| format!("Raft::new: {e}"))?
    };
    if n.id == 1 && n.incarnation == 0 {
        let mut members: BTreeMap<NodeId, RaftNode> = BTreeMap::new();
        for (i, a) in peers.iter().enumerate() {
            members.insert((i + 1) as u64, RaftNode { addr: a.clone() });
        }
        let _ = raft.initialize(members).await;
    }
    let raft = Arc::new(raft);
    use warp::Filter;
    let routes: Routes = varpulis_cluster::raft::routes::raft_routes(raft.clone(), cfg.admin_key.clone()).map(|r| warp::Reply::into_response(r)).boxed();
    net.lock().unwrap().routes.insert(host(n.id), routes);
    n.raft = Some(raft);
    n.incarnation += 1;
    Ok(())
}

pub async fn stop_node(n: &mut Node, net: &Arc<Mutex<Net>>) {
    net.lock().unwrap().routes.remove(&host(n.id));
    if let Some(r) = n.raft.take() {
        let _ = r.shutdown().await;
    }
    n.shared = None;
}

fn tagged(k: u64) -> ClusterCommand {
    ClusterCommand::ConnectorCreated { name: format!("tag{}", k), connector: ClusterConnector { name: format!("tag{}", k), connector_type: "mqtt".into(), params: [("k".to_string(), k.to_string())].into(), description: None } }
}

struct Ack {
    k: u64,
    index: u64,
}

// ───────────────────────────── C37 ─────────────────────────────

pub fn run_c37(batch: &str, tape: &mut Tape, rep: &mut Report) {
    let seed = tape.draw(u64::MAX);
    // restarts-snapshots: crash/restart of RocksStore nodes that snapshot and purge aggressively, so a node also
    // restarts right after building or installing a snapshot (the recovery path of C36 inside a live cluster)
    let rocks = batch == "restarts" || batch == "restarts-snapshots";
    let snapshot_every = if batch == "snapshots" || batch == "restarts-snapshots" { Some(tape.range(3, 8)) } else { None };
    let sim_secs = tape.range(30, 90);
    let faulty = batch != "healthy";
    let cfg_net = NetCfg {
        drop_permille: if faulty { *tape.pick(&[0u64, 10, 50, 150]) } else { 0 },
        reply_loss_permille: if faulty { *tape.pick(&[0u64, 10, 50]) } else { 0 },
        max_latency_ms: *tape.pick(&[0u64, 5, 50, 300]),
        slow_permille: if faulty { *tape.pick(&[0u64, 20, 100]) } else { 0 },
    };
    let nclients = tape.range(1, 3);
    // fault schedule (virtual seconds)
    let mut schedule: Vec<(u64, String, u64)> = vec![];
    if faulty {
        let nf = tape.range(1, 5);
        for _ in 0..nf {
            let at = tape.range(3, sim_secs - 12);
            let node = tape.range(1, 3);
            let kind = match tape.draw(if rocks { 4 } else { 3 }) {
                0 => "isolate",
                1 => "stall",
                2 => "isolate-leader",
                _ => "crash",
            };
            let dur = tape.range(2, 12);
            schedule.push((at, kind.to_string(), node));
            schedule.push((at + dur, format!("end-{}", kind), node));
        }
        schedule.sort();
    }
    rep.config = format!("batch={} store={} snapshot_every={:?} sim_seconds={} drop={}‰ reply_loss={}‰ max_latency={}ms slow={}‰ clients={} faults={:?}", batch, if rocks { "RocksStore" } else { "MemStore" }, snapshot_every, sim_secs, cfg_net.drop_permille, cfg_net.reply_loss_permille, cfg_net.max_latency_ms, cfg_net.slow_permille, nclients, schedule);
    rep.log(format!("config {}", rep.config));

    let mut seed_bytes = [0u8; 32];
    seed_bytes[..8].copy_from_slice(&seed.to_le_bytes());
    let rt = tokio::runtime::Builder::new_current_thread().enable_time().start_paused(true).rng_seed(tokio::runtime::RngSeed::from_bytes(&seed_bytes)).build().expect("runtime");
    let net = Arc::new(Mutex::new(Net { rng: Rng::new(seed ^ 0x5eed), cfg: cfg_net, routes: HashMap::new(), isolated: BTreeSet::new(), stalled: BTreeSet::new(), faults: BTreeMap::new(), delivered: 0, log: vec![], workers: BTreeMap::new(), wcfg: WorkerFaultCfg::default(), events: vec![] }));
    varpulis_cluster::verif_http::set_transport(Some(transport(net.clone())));
    let dir = if rocks { Some(crate::storage::scratch("c37")) } else { None };
    let ccfg = ClusterCfg { rocks, snapshot_every, admin_key: Some("raft-key".into()) };
    let peers: Vec<String> = (1..=3).map(addr).collect();

    let result: Result<(), String> = rt.block_on(async {
        start_clock();
        let mut nodes: Vec<Node> = (1..=3u64).map(|id| Node { id, raft: None, shared: None, hist: Arc::new(Mutex::new(BTreeMap::new())), rocks_dir: dir.clone(), incarnation: 0, installs: Arc::new(std::sync::atomic::AtomicU64::new(0)) }).collect();
        for n in nodes.iter_mut() {
            start_node(n, &ccfg, &peers, &net).await?;
        }
        let acks: Arc<Mutex<Vec<Ack>>> = Arc::new(Mutex::new(vec![]));
        let attempts = Arc::new(Mutex::new(0u64));
        let rafts: Arc<Mutex<BTreeMap<u64, Arc<VarpulisRaft>>>> = Arc::new(Mutex::new(nodes.iter().map(|n| (n.id, n.raft.clone().unwrap())).collect()));
        let stop = Arc::new(std::sync::atomic::AtomicBool::new(false));
        let next_tag = Arc::new(Mutex::new(0u64));
        let mut client_tasks = vec![];
        for c in 0..nclients {
            let (acks, rafts, stop, next_tag, attempts) = (acks.clone(), rafts.clone(), stop.clone(), next_tag.clone(), attempts.clone());
            let mut crng = Rng::new(seed ^ (0xc11e47 + c));
            client_tasks.push(tokio::spawn(async move {
                let mut target = 1 + crng.below(3);
                while !stop.load(std::sync::atomic::Ordering::SeqCst) {
                    tokio::time::sleep(Duration::from_millis(50 + crng.below(900))).await;
                    let k = {
                        let mut g = next_tag.lock().unwrap();
                        *g += 1;
                        *g
                    };
                    let raft = rafts.lock().unwrap().get(&target).cloned();
                    let Some(raft) = raft else {
                        target = 1 + crng.below(3);
                        continue;
                    };
                    *attempts.lock().unwrap() += 1;
                    // tagged writes (never removed: the durability witnesses) mixed with untagged commands that create,
                    // update and REMOVE things, so that state is not monotone
                    let cmd = match crng.below(10) {
                        0 => ClusterCommand::ScalingPolicySet { policy: Some(serde_json::json!({"k": k})) },
                        1 => ClusterCommand::ConnectorCreated { name: format!("tmp{}", crng.below(3)), connector: ClusterConnector { name: "tmp".into(), connector_type: "kafka".into(), params: [("k".to_string(), k.to_string())].into(), description: None } },
                        2 => ClusterCommand::ConnectorRemoved { name: format!("tmp{}", crng.below(3)) },
                        3 => ClusterCommand::RegisterWorker { id: format!("w{}", crng.below(3)), address: format!("http://w:{}", k), api_key: "k".into(), capacity: varpulis_cluster::worker::WorkerCapacity { cpu_cores: 2, pipelines_running: 0, max_pipelines: 10 } },
                        4 => ClusterCommand::DeregisterWorker { id: format!("w{}", crng.below(3)) },
                        5 => ClusterCommand::GroupDeployed { name: format!("g{}", crng.below(2)), group: serde_json::json!({"k": k}) },
                        6 => ClusterCommand::GroupRemoved { name: format!("g{}", crng.below(2)) },
                        _ => tagged(k),
                    };
                    sync_clock();
                    let is_tag = matches!(&cmd, ClusterCommand::ConnectorCreated { name, .. } if name.starts_with("tag"));
                    match tokio::time::timeout(Duration::from_secs(8), raft.client_write(cmd)).await {
                        Ok(Ok(resp)) => {
                            if is_tag {
                                acks.lock().unwrap().push(Ack { k, index: resp.log_id.index });
                            }
                        }
                        Ok(Err(e)) => {
                            // follow the leader hint if there is one
                            if let Some(f) = e.forward_to_leader() {
                                if let Some(l) = f.leader_id {
                                    target = l;
                                    continue;
                                }
                            }
                            target = 1 + crng.below(3);
                        }
                        Err(_) => {
                            target = 1 + crng.below(3);
                        }
                    }
                }
            }));
        }

        // ── main loop: virtual time in 100 ms quanta; faults at their scheduled seconds; invariants after every quantum ──
        let mut sched = schedule.clone();
        let mut checked: BTreeMap<(u64, u64), ()> = BTreeMap::new();
        let mut last_fault_end = 0u64;
        let total_ms = sim_secs * 1000;
        let mut t_ms = 0u64;
        while t_ms < total_ms {
            tokio::time::sleep(Duration::from_millis(100)).await;
            t_ms += 100;
            sync_clock();
            while let Some((at, kind, node)) = sched.first().cloned() {
                if at * 1000 > t_ms {
                    break;
                }
                sched.remove(0);
                let leader = nodes.iter().filter_map(|n| n.raft.as_ref()).filter_map(|r| r.metrics().borrow().current_leader).next().unwrap_or(1);
                let mut g = net.lock().unwrap();
                match kind.as_str() {
                    "isolate" => { g.isolated.insert(node); g.fault("partition"); }
                    "isolate-leader" => { g.isolated.insert(leader); g.fault("partition-leader"); }
                    "end-isolate" | "end-isolate-leader" => { g.isolated.clear(); g.fault("heal"); last_fault_end = t_ms; }
                    "stall" => { g.stalled.insert(node); g.fault("node-stalled"); }
                    "end-stall" => { g.stalled.remove(&node); last_fault_end = t_ms; }
                    "crash" => {
                        drop(g);
                        let n = &mut nodes[(node - 1) as usize];
                        if n.raft.is_some() {
                            rafts.lock().unwrap().remove(&node);
                            stop_node(n, &net).await;
                            net.lock().unwrap().fault("node-crash");
                        }
                        continue;
                    }
                    "end-crash" => {
                        drop(g);
                        let n = &mut nodes[(node - 1) as usize];
                        if n.raft.is_none() {
                            start_node(n, &ccfg, &peers, &net).await?;
                            rafts.lock().unwrap().insert(node, n.raft.clone().unwrap());
                            net.lock().unwrap().fault("node-restart");
                        }
                        last_fault_end = t_ms;
                        continue;
                    }
                    _ => {}
                }
                g.log.push(format!("t={}s {} node {} (leader was {})", at, kind, node, leader));
            }
            // invariant: any two nodes agree on the state at every index both have applied
            for i in 0..nodes.len() {
                for j in (i + 1)..nodes.len() {
                    let hi = nodes[i].hist.lock().unwrap();
                    let hj = nodes[j].hist.lock().unwrap();
                    for (idx, (h, s)) in hi.iter().rev().take(8) {
                        if checked.contains_key(&(*idx, (i * 3 + j) as u64)) {
                            continue;
                        }
                        if let Some((h2, s2)) = hj.get(idx) {
                            if h != h2 {
                                return Err(format!("DIVERGE|node {} and node {} both applied index {} but hold different state: {} vs {}", nodes[i].id, nodes[j].id, idx, crate::storage::compact(&serde_json::from_str(s).unwrap_or(Value::Null)), crate::storage::compact(&serde_json::from_str(s2).unwrap_or(Value::Null))));
                            }
                            checked.insert((*idx, (i * 3 + j) as u64), ());
                        }
                    }
                }
            }
            // invariant: an acknowledged write is in the state of every node that has applied past its index
            let ack_list: Vec<(u64, u64)> = acks.lock().unwrap().iter().map(|a| (a.k, a.index)).collect();
            for n in &nodes {
                let h = n.hist.lock().unwrap();
                if let Some((idx, (_, s))) = h.iter().next_back() {
                    for (k, aidx) in &ack_list {
                        if aidx <= idx && !s.contains(&format!("\"tag{}\"", k)) {
                            return Err(format!("LOST|write tag{} was acknowledged at index {} but node {} at applied index {} does not have it", k, aidx, n.id, idx));
                        }
                    }
                }
            }
        }
        // ── heal everything, stop clients, let the cluster settle; measure progress after the last fault ──
        {
            let mut g = net.lock().unwrap();
            g.isolated.clear();
            g.stalled.clear();
            g.cfg.drop_permille = 0;
            g.cfg.reply_loss_permille = 0;
            g.cfg.slow_permille = 0;
        }
        for n in nodes.iter_mut() {
            if n.raft.is_none() {
                start_node(n, &ccfg, &peers, &net).await?;
                rafts.lock().unwrap().insert(n.id, n.raft.clone().unwrap());
            }
        }
        stop.store(true, std::sync::atomic::Ordering::SeqCst);
        // progress probe: a fresh write commits within 30 virtual seconds once faults have stopped
        let t_probe = tokio::time::Instant::now();
        let mut committed_after = None;
        for attempt in 0..60 {
            let target = 1 + (attempt % 3) as u64;
            let raft = rafts.lock().unwrap().get(&target).cloned();
            if let Some(r) = raft {
                if let Ok(Ok(_)) = tokio::time::timeout(Duration::from_secs(2), r.client_write(tagged(1_000_000))).await {
                    committed_after = Some(t_probe.elapsed());
                    break;
                }
            }
            tokio::time::sleep(Duration::from_millis(500)).await;
        }
        tokio::time::sleep(Duration::from_secs(5)).await;
        for t in client_tasks {
            t.abort();
        }
        let final_states: Vec<(u64, Option<u64>, String)> = nodes.iter().map(|n| {
            let idx = n.hist.lock().unwrap().keys().next_back().copied();
            let s = n.shared.as_ref().map(|s| serde_json::to_value(&*s.read().unwrap()).unwrap().to_string()).unwrap_or_default();
            (n.id, idx, s)
        }).collect();
        let ack_list: Vec<(u64, u64)> = acks.lock().unwrap().iter().map(|a| (a.k, a.index)).collect();
        let max_term = nodes.iter().filter_map(|n| n.raft.as_ref()).map(|r| r.metrics().borrow().current_term).max().unwrap_or(0);
        for n in nodes.iter_mut() {
            stop_node(n, &net).await;
        }
        let installs: u64 = nodes.iter().map(|n| n.installs.load(std::sync::atomic::Ordering::SeqCst)).sum();
        let mut out = format!("OK|installs={}|maxterm={}|acks={}|attempts={}|progress_ms={}|last_fault_end_ms={}|", installs, max_term, ack_list.len(), attempts.lock().unwrap(), committed_after.map(|d| d.as_millis() as i64).unwrap_or(-1), last_fault_end);
        for (id, idx, s) in &final_states {
            out.push_str(&format!("n{}@{:?}#{:x};", id, idx, vsim_core::rng::hash_str(s)));
        }
        // final agreement after heal
        let max_idx = final_states.iter().filter_map(|(_, i, _)| *i).max();
        let at_max: Vec<&(u64, Option<u64>, String)> = final_states.iter().filter(|(_, i, _)| *i == max_idx).collect();
        if at_max.windows(2).any(|w| w[0].2 != w[1].2) {
            return Err("DIVERGE|after heal, nodes at the same final applied index hold different state".to_string());
        }
        for (id, idx, s) in &final_states {
            for (k, aidx) in &ack_list {
                if idx.map(|i| *aidx <= i).unwrap_or(false) && !s.contains(&format!("\"tag{}\"", k)) {
                    return Err(format!("LOST|after heal, acknowledged write tag{} (index {}) is missing on node {} at applied index {:?}", k, aidx, id, idx));
                }
            }
        }
        if committed_after.is_none() {
            out.push_str("NOPROGRESS");
        }
        Err(out)
    });
    varpulis_cluster::verif_http::set_transport(None);
    drop(rt);
    if let Some(d) = dir {
        let _ = std::fs::remove_dir_all(d);
    }
    let g = net.lock().unwrap();
    for l in &g.log {
        rep.log(l.clone());
    }
    for (k, v) in &g.faults {
        *rep.faults.entry(k.clone()).or_insert(0) += v;
    }
    rep.ops += g.delivered;
    rep.sim_ns = sim_secs * 1_000_000_000;
    let msg = result.err().unwrap_or_default();
    rep.log(msg.clone());
    if let Some(m) = msg.strip_prefix("DIVERGE|") {
        rep.violate("replicas-diverge-at-applied-index", batch, m.to_string());
    } else if let Some(m) = msg.strip_prefix("LOST|") {
        rep.violate("acknowledged-write-lost", batch, m.to_string());
    } else if let Some(m) = msg.strip_prefix("OK|") {
        let acks: u64 = m.split('|').find_map(|p| p.strip_prefix("acks=")).and_then(|s| s.parse().ok()).unwrap_or(0);
        let num = |key: &str| -> u64 { m.split('|').find_map(|p| p.strip_prefix(key)).and_then(|s| s.parse().ok()).unwrap_or(0) };
        if num("installs=") > 0 {
            rep.probe("snapshot-installed-on-a-follower");
        }
        if num("maxterm=") > 1 {
            rep.probe("leader-election-after-the-first");
        }
        if m.contains("NOPROGRESS") {
            rep.probe("no-commit-within-30s-after-last-fault");
        } else {
            rep.probe("commit-after-last-fault");
        }
        rep.state(vsim_core::rng::mix(&[acks.min(20), g.faults.len() as u64]));
        rep.nontrivial = acks >= 3 && (!faulty || !g.faults.is_empty());
    } else {
        rep.violate("harness-cluster-setup", "-", msg);
    }
}
