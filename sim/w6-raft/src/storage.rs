//! W6 storage node: the real MemStore / RocksStore driven through the RaftStorage trait
//! against a reference model of the storage contract and of apply_command.
//! C35: determinism under batching, snapshot equivalence, storage contract.
//! C36: crash after every RocksDB write (H5 crash points), reopen, compare.

use std::collections::{BTreeMap, BTreeSet};
use std::io::Cursor;

use openraft::storage::RaftStorage;
use openraft::{CommittedLeaderId, Entry, EntryPayload, LogId, Membership, RaftLogReader, RaftSnapshotBuilder, SnapshotMeta, Vote};
use serde_json::{json, Value};
use varpulis_cluster::connector_config::ClusterConnector;
use varpulis_cluster::raft::persistent_store::RocksStore;
use varpulis_cluster::raft::store::MemStore;
use varpulis_cluster::raft::{ClusterCommand, NodeId, RaftNode, TypeConfig};
use varpulis_cluster::worker::WorkerCapacity;
use vsim_core::exec::block_on_ready as bo;
use vsim_core::{Report, SimCrash, Tape};

// ───────────────────────── independent reference model of apply_command ─────────────────────────

#[derive(Clone, Default, PartialEq, Debug)]
pub struct ModelState {
    workers: BTreeMap<String, Value>,
    groups: BTreeMap<String, Value>,
    connectors: BTreeMap<String, Value>,
    migrations: BTreeMap<String, Value>,
    scaling: Option<Value>,
    models: BTreeMap<String, Value>,
}

impl ModelState {
    pub fn apply(&mut self, c: &ClusterCommand) {
        use ClusterCommand::*;
        match c {
            RegisterWorker { id, address, api_key, capacity } => {
                self.workers.insert(id.clone(), json!({"id": id, "address": address, "api_key": api_key, "status": "ready", "cpu_cores": capacity.cpu_cores,
                    "pipelines_running": capacity.pipelines_running, "max_pipelines": capacity.max_pipelines, "assigned_pipelines": [], "events_processed": 0}));
            }
            DeregisterWorker { id } => {
                self.workers.remove(id);
            }
            WorkerStatusChanged { id, status } => {
                if let Some(w) = self.workers.get_mut(id) {
                    w["status"] = json!(status);
                }
            }
            WorkerPipelinesUpdated { id, assigned_pipelines } => {
                if let Some(w) = self.workers.get_mut(id) {
                    w["assigned_pipelines"] = json!(assigned_pipelines);
                }
            }
            GroupDeployed { name, group } | GroupUpdated { name, group } => {
                self.groups.insert(name.clone(), group.clone());
            }
            GroupRemoved { name } => {
                self.groups.remove(name);
            }
            MigrationStarted { task } => {
                if let Some(id) = task.get("id").and_then(|v| v.as_str()) {
                    self.migrations.insert(id.to_string(), task.clone());
                }
            }
            MigrationUpdated { id, status } => {
                if let Some(m) = self.migrations.get_mut(id) {
                    m["status"] = json!(status);
                }
            }
            MigrationRemoved { id } => {
                self.migrations.remove(id);
            }
            ConnectorCreated { name, connector } | ConnectorUpdated { name, connector } => {
                self.connectors.insert(name.clone(), serde_json::to_value(connector).unwrap());
            }
            ConnectorRemoved { name } => {
                self.connectors.remove(name);
            }
            ScalingPolicySet { policy } => self.scaling = policy.clone(),
            ModelRegistered { name, entry } => {
                self.models.insert(name.clone(), serde_json::to_value(entry).unwrap());
            }
            ModelRemoved { name } => {
                self.models.remove(name);
            }
        }
    }
    pub fn to_value(&self) -> Value {
        json!({"workers": self.workers, "pipeline_groups": self.groups, "connectors": self.connectors, "active_migrations": self.migrations, "scaling_policy": self.scaling, "models": self.models})
    }
}

pub fn real_state_value(s: &varpulis_cluster::raft::state_machine::CoordinatorState) -> Value {
    serde_json::to_value(s).unwrap()
}

// ───────────────────────── command generator (all 16 kinds) ─────────────────────────

pub fn gen_command(tape: &mut Tape, uniq: u64) -> ClusterCommand {
    let w = format!("w{}", tape.draw(3));
    let g = format!("g{}", tape.draw(2));
    let c = format!("conn{}", tape.draw(2));
    let m = format!("mig{}", tape.draw(2));
    let md = format!("model{}", tape.draw(2));
    match tape.draw(16) {
        0 => ClusterCommand::RegisterWorker { id: w, address: format!("http://worker:{}", 9000 + uniq), api_key: format!("k{}", uniq), capacity: WorkerCapacity { cpu_cores: 1 + tape.draw(8) as usize, pipelines_running: 0, max_pipelines: 10 } },
        1 => ClusterCommand::DeregisterWorker { id: w },
        2 => ClusterCommand::WorkerStatusChanged { id: w, status: tape.pick(&["ready", "unhealthy", "draining"]).to_string() },
        3 => ClusterCommand::WorkerPipelinesUpdated { id: w, assigned_pipelines: (0..tape.draw(3)).map(|i| format!("p{}-{}", uniq, i)).collect() },
        4 => ClusterCommand::GroupDeployed { name: g, group: json!({"id": uniq, "status": "running"}) },
        5 => ClusterCommand::GroupUpdated { name: g, group: json!({"id": uniq, "status": "updated"}) },
        6 => ClusterCommand::GroupRemoved { name: g },
        7 => ClusterCommand::MigrationStarted { task: json!({"id": m, "status": "started", "u": uniq}) },
        8 => ClusterCommand::MigrationUpdated { id: m, status: format!("s{}", uniq) },
        9 => ClusterCommand::MigrationRemoved { id: m },
        10 => ClusterCommand::ConnectorCreated { name: c.clone(), connector: ClusterConnector { name: c, connector_type: "mqtt".into(), params: [("host".to_string(), format!("h{}", uniq))].into(), description: None } },
        11 => ClusterCommand::ConnectorUpdated { name: c.clone(), connector: ClusterConnector { name: c, connector_type: "kafka".into(), params: [("brokers".to_string(), format!("b{}", uniq))].into(), description: Some("upd".into()) } },
        12 => ClusterCommand::ConnectorRemoved { name: c },
        13 => ClusterCommand::ScalingPolicySet { policy: if tape.chance(1, 3) { None } else { Some(json!({"min_workers": uniq})) } },
        14 => ClusterCommand::ModelRegistered { name: md.clone(), entry: serde_json::from_value(model_entry_json(&md, uniq)).expect("model entry") },
        _ => ClusterCommand::ModelRemoved { name: md },
    }
}

fn model_entry_json(name: &str, uniq: u64) -> Value {
    json!({"name": name, "s3_key": format!("models/{}/{}", name, uniq), "format": "onnx", "inputs": ["x"], "outputs": ["y"], "size_bytes": uniq, "uploaded_at": format!("t{}", uniq), "description": ""})
}

// ───────────────────────── contract model ─────────────────────────

pub fn lid(term: u64, index: u64) -> LogId<NodeId> {
    LogId::new(CommittedLeaderId::new(term, 1), index)
}

#[derive(Clone)]
pub struct Model {
    pub log: BTreeMap<u64, Entry<TypeConfig>>,
    pub last_purged: Option<LogId<NodeId>>,
    pub vote: Option<Vote<NodeId>>,
    pub applied: Option<LogId<NodeId>>,
    /// every entry ever appended and not deleted as conflicting, by index (survives purges): the committed history
    pub history: BTreeMap<u64, Entry<TypeConfig>>,
}

impl Model {
    pub fn new() -> Self {
        Model { log: BTreeMap::new(), last_purged: None, vote: None, applied: None, history: BTreeMap::new() }
    }
    pub fn state_at(&self, index: Option<u64>) -> ModelState {
        let mut s = ModelState::default();
        if let Some(i) = index {
            for (_, e) in self.history.range(..=i) {
                if let EntryPayload::Normal(c) = &e.payload {
                    s.apply(c);
                }
            }
        }
        s
    }
    pub fn last_log_id(&self) -> Option<LogId<NodeId>> {
        self.log.values().last().map(|e| e.log_id).or(self.last_purged)
    }
}

fn entry_key(e: &Entry<TypeConfig>) -> String {
    format!("{}:{}", e.log_id, serde_json::to_string(&e.payload).unwrap_or_default())
}

/// Check the storage contract of `s` against the model. `what` names the last operation.
pub fn check_contract<S: RaftStorage<TypeConfig>>(s: &mut S, m: &Model, rep: &mut Report, store: &str, what: &str) {
    let ls = bo(s.get_log_state()).expect("get_log_state");
    if ls.last_purged_log_id != m.last_purged {
        rep.violate("storage-contract-last-purged", store, format!("after {}: get_log_state.last_purged = {:?}, expected {:?}", what, ls.last_purged_log_id, m.last_purged));
    }
    if ls.last_log_id != m.last_log_id() {
        let sig = if m.log.is_empty() && m.last_purged.is_some() { format!("{};all-entries-purged", store) } else { store.to_string() };
        rep.violate("storage-contract-last-log-id", &sig, format!("after {}: get_log_state.last_log_id = {:?}, expected {:?} (log holds {} entries, last_purged {:?})", what, ls.last_log_id, m.last_log_id(), m.log.len(), m.last_purged));
    }
    let got = bo(s.try_get_log_entries(0..u64::MAX)).expect("try_get_log_entries");
    let gk: Vec<String> = got.iter().map(entry_key).collect();
    let wk: Vec<String> = m.log.values().map(entry_key).collect();
    if gk != wk {
        rep.violate("storage-contract-log-entries", store, format!("after {}: stored entries {:?}, expected {:?}", what, got.iter().map(|e| e.log_id.index).collect::<Vec<_>>(), m.log.keys().collect::<Vec<_>>()));
    }
    if let Some((&lo, _)) = m.log.iter().next() {
        // a sub-range read
        let hi = lo + 2;
        let g2 = bo(s.try_get_log_entries(lo..hi)).expect("range");
        let w2: Vec<u64> = m.log.range(lo..hi).map(|(k, _)| *k).collect();
        if g2.iter().map(|e| e.log_id.index).collect::<Vec<_>>() != w2 {
            rep.violate("storage-contract-log-entries", store, format!("after {}: range {}..{} returned {:?}, expected {:?}", what, lo, hi, g2.iter().map(|e| e.log_id.index).collect::<Vec<_>>(), w2));
        }
    }
    let v = bo(s.read_vote()).expect("read_vote");
    if v != m.vote {
        rep.violate("storage-contract-vote", store, format!("after {}: read_vote = {:?}, expected {:?}", what, v, m.vote));
    }
    let (ap, mem) = bo(s.last_applied_state()).expect("last_applied_state");
    // the membership in effect is the one of the last membership entry at or below the applied position
    let want_mem: Option<(LogId<NodeId>, String)> = m.applied.and_then(|a| m.history.range(..=a.index).rev().find_map(|(_, e)| match &e.payload { EntryPayload::Membership(mm) => Some((e.log_id, format!("{:?}", mm))), _ => None }));
    let got_mem: Option<(LogId<NodeId>, String)> = mem.log_id().map(|id| (id, format!("{:?}", mem.membership())));
    if got_mem != want_mem {
        rep.violate("storage-contract-last-membership", store, format!("after {}: last_applied_state reports membership {:?}, but the last membership entry at or below the applied position {:?} is {:?}", what, got_mem, m.applied.map(|a| a.index), want_mem));
    }
    if ap != m.applied {
        rep.violate("storage-contract-last-applied", store, format!("after {}: last_applied = {:?}, expected {:?}", what, ap, m.applied));
    }
}

pub fn mk_entry(tape: &mut Tape, term: u64, index: u64, uniq: u64) -> Entry<TypeConfig> {
    let payload = match tape.draw(12) {
        0 => EntryPayload::Blank,
        1 => {
            let ids: BTreeSet<NodeId> = [1u64, 2, 3].into_iter().collect();
            let nodes: BTreeMap<NodeId, RaftNode> = ids.iter().map(|i| (*i, RaftNode { addr: format!("http://c{}:9100", i) })).collect();
            EntryPayload::Membership(Membership::new(vec![ids], nodes))
        }
        _ => EntryPayload::Normal(gen_command(tape, uniq)),
    };
    Entry { log_id: lid(term, index), payload }
}

// ───────────────────────── one replica = real store + model ─────────────────────────

pub enum Real {
    Mem(MemStore, varpulis_cluster::raft::store::SharedCoordinatorState),
    Rocks(RocksStore, varpulis_cluster::raft::store::SharedCoordinatorState, std::path::PathBuf),
}

macro_rules! with_store {
    ($r:expr, $s:ident => $body:expr) => {
        match $r {
            Real::Mem($s, _) => $body,
            Real::Rocks($s, _, _) => $body,
        }
    };
}

impl Real {
    pub fn kind(&self) -> &'static str {
        match self {
            Real::Mem(..) => "MemStore",
            Real::Rocks(..) => "RocksStore",
        }
    }
    pub fn state_value(&self) -> Value {
        // the state machine as published to the coordinator (shared state), which is what users observe
        match self {
            Real::Mem(_, sh) | Real::Rocks(_, sh, _) => real_state_value(&sh.read().unwrap()),
        }
    }
}

pub fn scratch(tag: &str) -> std::path::PathBuf {
    let base: std::path::PathBuf = if std::path::Path::new("/dev/shm").is_dir() { "/dev/shm".into() } else { std::env::temp_dir() };
    let d = base.join(format!("vsim-w6-{}-{}", std::process::id(), tag));
    let _ = std::fs::remove_dir_all(&d);
    std::fs::create_dir_all(&d).expect("scratch");
    d
}

pub fn open_real(rocks: bool, tag: &str) -> Real {
    if rocks {
        let d = scratch(tag);
        let (s, sh) = RocksStore::open_with_shared_state(d.to_str().unwrap()).expect("RocksStore::open");
        Real::Rocks(s, sh, d)
    } else {
        let (s, sh) = MemStore::with_shared_state();
        Real::Mem(s, sh)
    }
}

pub struct Replica {
    pub real: Real,
    pub m: Model,
    /// highest log index covered by a snapshot this replica built or installed; openraft only ever
    /// purges entries covered by a snapshot, so the harness purges no further than this
    pub snap_index: Option<u64>,
}

#[derive(Clone)]
pub struct Snap {
    pub meta: SnapshotMeta<NodeId, RaftNode>,
    pub data: Vec<u8>,
}

impl Replica {
    pub fn append(&mut self, entries: Vec<Entry<TypeConfig>>) {
        for e in &entries {
            self.m.log.insert(e.log_id.index, e.clone());
            self.m.history.insert(e.log_id.index, e.clone());
        }
        with_store!(&mut self.real, s => bo(s.append_to_log(entries)).expect("append_to_log"));
    }
    /// apply the next `k` unapplied entries; returns how many were applied
    pub fn apply(&mut self, k: u64) -> u64 {
        let from = self.m.applied.map(|a| a.index + 1).unwrap_or(0);
        let ents: Vec<Entry<TypeConfig>> = self.m.log.range(from..from + k).map(|(_, e)| e.clone()).collect();
        // only a contiguous run starting at `from`
        let mut run = vec![];
        let mut want = from;
        for e in ents {
            if e.log_id.index != want {
                break;
            }
            want += 1;
            run.push(e);
        }
        if run.is_empty() {
            return 0;
        }
        self.m.applied = Some(run.last().unwrap().log_id);
        let n = run.len() as u64;
        with_store!(&mut self.real, s => bo(s.apply_to_state_machine(&run)).expect("apply_to_state_machine"));
        n
    }
    pub fn build_snapshot(&mut self) -> Snap {
        let snap = with_store!(&mut self.real, s => {
            let mut b = bo(s.get_snapshot_builder());
            bo(b.build_snapshot()).expect("build_snapshot")
        });
        self.snap_index = self.snap_index.max(snap.meta.last_log_id.map(|l| l.index));
        Snap { meta: snap.meta.clone(), data: snap.snapshot.into_inner() }
    }
    pub fn install(&mut self, snap: &Snap) {
        self.m.applied = snap.meta.last_log_id;
        self.snap_index = self.snap_index.max(snap.meta.last_log_id.map(|l| l.index));
        with_store!(&mut self.real, s => bo(s.install_snapshot(&snap.meta, Box::new(Cursor::new(snap.data.clone())))).expect("install_snapshot"));
    }
    pub fn purge(&mut self, upto: LogId<NodeId>) {
        let ks: Vec<u64> = self.m.log.range(..=upto.index).map(|(k, _)| *k).collect();
        for k in ks {
            self.m.log.remove(&k);
        }
        self.m.last_purged = Some(upto);
        with_store!(&mut self.real, s => bo(s.purge_logs_upto(upto)).expect("purge_logs_upto"));
    }
    pub fn delete_conflict(&mut self, since: LogId<NodeId>) {
        let ks: Vec<u64> = self.m.log.range(since.index..).map(|(k, _)| *k).collect();
        for k in ks {
            self.m.log.remove(&k);
            self.m.history.remove(&k);
        }
        with_store!(&mut self.real, s => bo(s.delete_conflict_logs_since(since)).expect("delete_conflict_logs_since"));
    }
    pub fn save_vote(&mut self, v: Vote<NodeId>) {
        self.m.vote = Some(v);
        with_store!(&mut self.real, s => bo(s.save_vote(&v)).expect("save_vote"));
    }
    pub fn check(&mut self, rep: &mut Report, what: &str) {
        let kind = self.real.kind();
        with_store!(&mut self.real, s => check_contract(s, &self.m, rep, kind, what));
        // (b) independent model of apply_command at the applied position
        let want = self.m.state_at(self.m.applied.map(|a| a.index)).to_value();
        let got = self.real.state_value();
        if got != want {
            rep.violate("state-machine-differs-from-reference-model", kind, format!("after {}: at applied {:?} the state machine is {} but the reference model says {}", what, self.m.applied.map(|a| a.index), compact(&got), compact(&want)));
        }
    }
}

pub fn compact(v: &Value) -> String {
    let s = v.to_string();
    if s.len() > 400 {
        format!("{}…", &s[..400])
    } else {
        s
    }
}

// ───────────────────────────── C35 ─────────────────────────────

pub fn run_c35(batch: &str, tape: &mut Tape, rep: &mut Report) {
    let rocks = batch == "rocks" || (batch == "mixed" && tape.chance(1, 2));
    let nops = tape.range(6, 40);
    rep.config = format!("store={} ops={}", if rocks { "RocksStore" } else { "MemStore" }, nops);
    rep.log(format!("config {}", rep.config));
    let mut a = Replica { real: open_real(rocks, "a"), m: Model::new(), snap_index: None };
    let mut b = Replica { real: open_real(rocks, "b"), m: Model::new(), snap_index: None };
    let mut term = 1u64;
    let mut uniq = 0u64;
    let mut snaps: Vec<Snap> = vec![];
    let mut installs = 0u64;
    let mut purged_all = false;
    for step in 0..nops {
        let next_index = a.m.history.keys().last().map(|k| k + 1).unwrap_or(0);
        match tape.draw(10) {
            0..=2 => {
                let k = tape.range(1, 4);
                let ents: Vec<Entry<TypeConfig>> = (0..k).map(|i| { uniq += 1; mk_entry(tape, term, next_index + i, uniq) }).collect();
                rep.log(format!("#{} append {:?} (both replicas)", step, ents.iter().map(|e| e.log_id.index).collect::<Vec<_>>()));
                a.append(ents.clone());
                b.append(ents);
            }
            3 | 4 => {
                // different batching on the two replicas
                let ka = tape.range(1, 5);
                let na = a.apply(ka);
                let mut nb = 0;
                // replica B sometimes lags behind (it will catch up later, in batches or through a snapshot)
                let lag = tape.chance(1, 3);
                while !lag && b.m.applied.map(|x| x.index) < a.m.applied.map(|x| x.index) {
                    let k = tape.range(1, 3);
                    let n = b.apply(k);
                    if n == 0 { break; }
                    nb += n;
                }
                rep.log(format!("#{} apply: replica A one batch of {}, replica B {} entries in smaller batches -> applied A={:?} B={:?}", step, na, nb, a.m.applied.map(|x| x.index), b.m.applied.map(|x| x.index)));
            }
            5 => {
                if a.m.applied.is_some() {
                    let s = a.build_snapshot();
                    rep.log(format!("#{} replica A builds snapshot at {:?}", step, s.meta.last_log_id.map(|l| l.index)));
                    snaps.push(s);
                }
                if b.m.applied.is_some() && tape.chance(1, 2) {
                    let s = b.build_snapshot();
                    rep.log(format!("#{} replica B builds snapshot at {:?}", step, s.meta.last_log_id.map(|l| l.index)));
                }
            }
            6 => {
                // install one of A's snapshots on B if it is ahead of B
                if a.m.applied > b.m.applied && tape.chance(1, 2) {
                    snaps.push(a.build_snapshot());
                }
                if let Some(s) = snaps.last().cloned() {
                    if s.meta.last_log_id > b.m.applied {
                        rep.log(format!("#{} replica B installs A's snapshot at {:?} (B had applied {:?})", step, s.meta.last_log_id.map(|l| l.index), b.m.applied.map(|x| x.index)));
                        b.install(&s);
                        installs += 1;
                        rep.probe("snapshot-installed-on-lagging-replica");
                    }
                }
            }
            7 => {
                for r in [&mut a, &mut b] {
                    if let Some(hi) = r.snap_index {
                        let lo = r.m.last_purged.map(|p| p.index + 1).unwrap_or(0);
                        if hi >= lo {
                            let idx = if tape.chance(1, 2) { hi } else { lo + tape.draw(hi - lo + 1) };
                            if let Some(e) = r.m.history.get(&idx) {
                                let id = e.log_id;
                                r.purge(id);
                                if r.m.log.is_empty() { purged_all = true; }
                            }
                        }
                    }
                }
                rep.log(format!("#{} purge -> A last_purged={:?} ({} left), B last_purged={:?} ({} left)", step, a.m.last_purged.map(|p| p.index), a.m.log.len(), b.m.last_purged.map(|p| p.index), b.m.log.len()));
                if purged_all { rep.probe("every-entry-purged"); }
            }
            8 => {
                // conflicting suffix: delete unapplied entries on both, new term
                let lo = a.m.applied.map(|x| x.index + 1).unwrap_or(0).max(b.m.applied.map(|x| x.index + 1).unwrap_or(0));
                if let Some((&last, _)) = a.m.log.iter().next_back() {
                    if last >= lo {
                        let since = lo + tape.draw(last - lo + 1);
                        if let Some(e) = a.m.log.get(&since).cloned() {
                            a.delete_conflict(e.log_id);
                            b.delete_conflict(e.log_id);
                            term += 1;
                            rep.fault("conflicting-suffix-deleted");
                            rep.log(format!("#{} delete conflicting suffix since {} (new term {})", step, since, term));
                        }
                    }
                }
            }
            _ => {
                let v = Vote::new(term + tape.draw(2), 1 + tape.draw(3));
                a.save_vote(v);
                b.save_vote(v);
                rep.log(format!("#{} save_vote {:?}", step, v));
            }
        }
        rep.ops += 1;
        a.check(rep, &format!("step #{} (replica A)", step));
        b.check(rep, &format!("step #{} (replica B)", step));
        // (a) equal state at equal applied index, whatever the batching or the snapshot-install point
        if a.m.applied == b.m.applied && a.real.state_value() != b.real.state_value() {
            rep.violate("replicas-diverge-at-equal-applied-index", a.real.kind(), format!("step #{}: both applied {:?} but states differ: A {} B {}", step, a.m.applied.map(|x| x.index), compact(&a.real.state_value()), compact(&b.real.state_value())));
        }
        if rep.violated() {
            break;
        }
    }
    // bring both to the end of the log and compare once more
    if !rep.violated() {
        while a.apply(3) > 0 {}
        while b.apply(1) > 0 {}
        a.check(rep, "final apply (replica A)");
        b.check(rep, "final apply (replica B)");
        if a.m.applied == b.m.applied && a.real.state_value() != b.real.state_value() {
            rep.violate("replicas-diverge-at-equal-applied-index", a.real.kind(), "after applying the whole log".to_string());
        }
    }
    for r in [&a, &b] {
        if let Real::Rocks(_, _, d) = &r.real {
            let _ = std::fs::remove_dir_all(d);
        }
    }
    rep.state(vsim_core::rng::mix(&[a.m.log.len() as u64, installs, purged_all as u64]));
    rep.nontrivial = a.m.history.len() >= 4 && a.m.applied.is_some();
}

// ───────────────────────────── C36 ─────────────────────────────

struct CrashPlan {
    at: Option<u64>,
    seen: u64,
    fired: Option<String>,
}

pub fn run_c36(batch: &str, tape: &mut Tape, rep: &mut Report) {
    use std::cell::RefCell;
    use std::rc::Rc;
    let nops = tape.range(6, 30);
    rep.config = format!("store=RocksStore ops={} batch={}", nops, batch);
    rep.log(format!("config {}", rep.config));
    let dir = scratch("c36");
    let path = dir.to_str().unwrap().to_string();
    let plan = Rc::new(RefCell::new(CrashPlan { at: None, seen: 0, fired: None }));
    {
        let p = plan.clone();
        varpulis_cluster::verif::set_crash_hook(Some(Box::new(move |label: &str| {
            let mut g = p.borrow_mut();
            let i = g.seen;
            g.seen += 1;
            if g.at == Some(i) {
                g.at = None;
                g.fired = Some(label.to_string());
                drop(g);
                std::panic::resume_unwind(Box::new(SimCrash));
            }
        })));
    }
    // a leader replica in memory supplies consistent snapshots of the same history
    let mut leader = Replica { real: open_real(false, "leader"), m: Model::new(), snap_index: None };
    let (s, sh) = RocksStore::open_with_shared_state(&path).expect("open");
    let mut r = Replica { real: Real::Rocks(s, sh, dir.clone()), m: Model::new(), snap_index: None };
    let mut term = 1u64;
    let mut uniq = 0u64;
    let mut crashes = 0u64;
    let crash_budget = if batch == "clean-restarts" { 0 } else { tape.range(1, 3) };
    // A lagging follower: entries the leader appended while this node was cut off (`lag_from` = first index it
    // misses). It can only catch up by installing the leader's snapshot, which lies AHEAD of its log; openraft
    // then purges the log up to the snapshot (`pending_purge`) before anything else is appended.
    let mut lag_from: Option<u64> = None;
    let mut pending_purge: Option<LogId<NodeId>> = None;
    for step in 0..nops {
        // maybe arm a crash inside the next operation (crash points are counted globally)
        let armed = crashes < crash_budget && tape.chance(1, 4);
        if armed {
            let seen = plan.borrow().seen;
            plan.borrow_mut().at = Some(seen + tape.draw(4));
        }
        let before = r.m.clone();
        let next_index = r.m.history.keys().last().map(|k| k + 1).unwrap_or(0);
        let mut what = String::new();
        let op_result = std::panic::catch_unwind(std::panic::AssertUnwindSafe(|| {
            let choice = if pending_purge.is_some() { 100 } else { tape.draw(11) };
            match choice {
                100 => {
                    let id = pending_purge.take().unwrap();
                    what = format!("purge_logs_upto {} (what openraft does right after installing a snapshot ahead of the log)", id.index);
                    r.purge(id);
                    lag_from = None;
                }
                0..=2 | 10 => {
                    let k = tape.range(1, 4);
                    let ents: Vec<Entry<TypeConfig>> = (0..k).map(|i| { uniq += 1; mk_entry(tape, term, next_index + i, uniq) }).collect();
                    if choice == 10 || lag_from.is_some() {
                        // the node is cut off: only the leader gets these entries
                        what = format!("(cut off) the leader alone appends {:?}", ents.iter().map(|e| e.log_id.index).collect::<Vec<_>>());
                        if lag_from.is_none() { lag_from = Some(next_index); }
                        for e in &ents { r.m.history.insert(e.log_id.index, e.clone()); }
                        leader.append(ents);
                    } else {
                        what = format!("append {:?}", ents.iter().map(|e| e.log_id.index).collect::<Vec<_>>());
                        leader.append(ents.clone());
                        r.append(ents);
                    }
                }
                3 | 4 => {
                    let k = tape.range(1, 4);
                    what = format!("apply up to {} entries", k);
                    leader.apply(k);
                    r.apply(k);
                }
                5 => {
                    what = "build_snapshot".into();
                    if r.m.applied.is_some() {
                        let _ = r.build_snapshot();
                    }
                }
                6 => {
                    // the leader is ahead: install its snapshot
                    while leader.apply(4) > 0 {}
                    if leader.m.applied > r.m.applied {
                        let s = leader.build_snapshot();
                        let ahead = lag_from.is_some() && s.meta.last_log_id.map(|l| l.index) >= lag_from;
                        what = format!("install_snapshot at {:?}{}", s.meta.last_log_id.map(|l| l.index), if ahead { " (ahead of the local log)" } else { "" });
                        if ahead { pending_purge = s.meta.last_log_id; }
                        r.install(&s);
                    }
                }
                7 if lag_from.is_some() => {}
                8 if lag_from.is_some() => {}
                7 => {
                    if let Some(hi) = r.snap_index {
                        let lo = r.m.last_purged.map(|p| p.index + 1).unwrap_or(0);
                        if hi >= lo {
                            let idx = if tape.chance(1, 2) { hi } else { lo + tape.draw(hi - lo + 1) };
                            if let Some(e) = r.m.history.get(&idx) {
                                let id = e.log_id;
                                what = format!("purge_logs_upto {}", idx);
                                r.purge(id);
                            }
                        }
                    }
                }
                8 => {
                    let lo = r.m.applied.map(|x| x.index + 1).unwrap_or(0).max(leader.m.applied.map(|x| x.index + 1).unwrap_or(0));
                    if let Some((&last, _)) = r.m.log.iter().next_back() {
                        if last >= lo {
                            let since = lo + tape.draw(last - lo + 1);
                            if let Some(e) = r.m.log.get(&since).cloned() {
                                what = format!("delete_conflict_logs_since {}", since);
                                leader.delete_conflict(e.log_id);
                                r.delete_conflict(e.log_id);
                                term += 1;
                            }
                        }
                    }
                }
                _ => {
                    let v = Vote::new(term + tape.draw(2), 1 + tape.draw(3));
                    what = format!("save_vote {:?}", v);
                    r.save_vote(v);
                }
            }
        }));
        rep.ops += 1;
        let crashed = match op_result {
            Ok(()) => false,
            Err(p) => {
                if p.downcast_ref::<SimCrash>().is_none() {
                    std::panic::resume_unwind(p);
                }
                true
            }
        };
        plan.borrow_mut().at = None;
        let restart = crashed || (batch != "crashes-only" && tape.chance(1, 8));
        if !restart {
            rep.log(format!("#{} {}", step, what));
            r.check(rep, &format!("step #{} {}", step, what));
            if rep.violated() { break; }
            continue;
        }
        // ── the process dies (crash) or stops (clean restart): only the RocksDB directory survives ──
        let label = plan.borrow_mut().fired.take();
        if crashed {
            crashes += 1;
            rep.fault("crash-at-storage-write");
            rep.fault(&format!("crash:{}", label.clone().unwrap_or_default()));
            rep.log(format!("#{} {} -> CRASH right after the write '{}'", step, what, label.clone().unwrap_or_default()));
        } else {
            rep.fault("clean-restart");
            rep.log(format!("#{} {} ; then clean restart", step, what));
        }
        let after = r.m.clone(); // model as if the operation completed
        // drop the old incarnation, reopen
        let old = std::mem::replace(&mut r.real, Real::Mem(MemStore::new(), std::sync::Arc::new(std::sync::RwLock::new(Default::default()))));
        drop(old);
        let (s, sh) = match RocksStore::open_with_shared_state(&path) {
            Ok(x) => x,
            Err(e) => {
                rep.violate("reopen-failed", "-", format!("RocksStore::open_with_shared_state after {}: {}", what, e));
                break;
            }
        };
        r.real = Real::Rocks(s, sh, dir.clone());
        // what the reopened store reports
        let (ap, vote, ls, ents) = with_store!(&mut r.real, s => (bo(s.last_applied_state()).expect("las").0, bo(s.read_vote()).expect("vote"), bo(s.get_log_state()).expect("ls"), bo(s.try_get_log_entries(0..u64::MAX)).expect("ents")));
        // each recorded item must be the value before or after the interrupted operation
        let pick = |name: &str, got: String, b: String, a: String, rep: &mut Report| -> bool {
            if got == a { true } else if got == b { false } else {
                rep.violate("recovered-value-neither-old-nor-new", name, format!("after restart ({}): {} = {}, before the operation {}, after it {}", what, name, got, b, a));
                false
            }
        };
        let ap_new = pick("last_applied", format!("{:?}", ap), format!("{:?}", before.applied), format!("{:?}", after.applied), rep);
        let _ = pick("vote", format!("{:?}", vote), format!("{:?}", before.vote), format!("{:?}", after.vote), rep);
        let purged_new = pick("last_purged", format!("{:?}", ls.last_purged_log_id), format!("{:?}", before.last_purged), format!("{:?}", after.last_purged), rep);
        let idx: Vec<u64> = ents.iter().map(|e| e.log_id.index).collect();
        let log_new = pick("log", format!("{:?}", ents.iter().map(entry_key).collect::<Vec<_>>()), format!("{:?}", before.log.values().map(entry_key).collect::<Vec<_>>()), format!("{:?}", after.log.values().map(entry_key).collect::<Vec<_>>()), rep);
        if !crashed && !(ap_new || after.applied == before.applied) {
            rep.violate("acknowledged-write-lost-across-clean-restart", "last_applied", format!("{}", what));
        }
        // cross-invariants of the recovered store
        if let (Some(first), Some(p)) = (idx.first(), ls.last_purged_log_id) {
            if *first != p.index + 1 {
                rep.violate("log-gap-after-restart", if crashed { label.as_deref().unwrap_or("?") } else { "clean" }, format!("after restart ({}): first stored entry is {} but last_purged is {:?}", what, first, p.index));
            }
        }
        if let (Some(first), None) = (idx.first(), ls.last_purged_log_id) {
            if *first != 0 {
                rep.violate("log-gap-after-restart", if crashed { label.as_deref().unwrap_or("?") } else { "clean" }, format!("after restart ({}): first stored entry is {} but nothing is recorded as purged", what, first));
            }
        }
        if idx.windows(2).any(|w| w[1] != w[0] + 1) {
            rep.violate("log-not-contiguous-after-restart", "-", format!("{:?}", idx));
        }
        // the replicated state must be exactly the commands up to the recorded applied position
        let want = after.state_at(ap.map(|a| a.index)).to_value();
        let got = r.real.state_value();
        if got != want {
            let purged_before = ls.last_purged_log_id.is_some() || idx.first().map(|f| *f > 0).unwrap_or(false);
            let sig = if !purged_before { "log-never-purged".to_string() } else if crashed { format!("log-purged;crash-at:{}", label.clone().unwrap_or_default()) } else { "log-purged;clean-restart".to_string() };
            rep.violate("recovered-state-differs-from-applied-commands", &sig, format!("after restart ({}): recorded applied position {:?}, state machine {} but the commands up to that position give {}", what, ap.map(|a| a.index), compact(&got), compact(&want)));
        }
        // adopt what was recovered as the new reality and go on
        let mut m = if ap_new || purged_new || log_new { after.clone() } else { before.clone() };
        m.applied = ap;
        m.vote = vote;
        m.last_purged = ls.last_purged_log_id;
        m.log = ents.into_iter().map(|e| (e.log_id.index, e)).collect();
        m.history = after.history.clone();
        r.m = m;
        // an interrupted install that did not take effect is not followed by the purge
        if let Some(p) = pending_purge { if r.m.applied != Some(p) { pending_purge = None; } }
        if pending_purge.is_some() { rep.probe("restart-between-snapshot-install-and-purge"); }
        if rep.violated() { break; }
        if leader.m.history.len() != r.m.history.len() {
            // keep the in-memory leader on the same history
            leader.m.history = r.m.history.clone();
        }
    }
    varpulis_cluster::verif::set_crash_hook(None);
    let _ = std::fs::remove_dir_all(&dir);
    rep.state(vsim_core::rng::mix(&[crashes, r.m.log.len() as u64, r.m.last_purged.is_some() as u64]));
    rep.nontrivial = crashes + rep.faults.get("clean-restart").copied().unwrap_or(0) > 0 && r.m.history.len() >= 3;
}

// ───────────────────────── openraft's storage conformance suite (fixed scenarios, not simulation) ─────────────────────────

pub fn run_conformance(tape: &mut Tape, rep: &mut Report) {
    let _ = tape;
    rep.config = "openraft::testing::Suite::test_all against MemStore and RocksStore (fixed scenarios)".into();
    rep.log(format!("config {}", rep.config));
    // the suite builds its own multi-threaded runtimes and uses no timers; run it outside the virtual clock
    vsim_core::clock::end_run();
    let mem = std::panic::catch_unwind(|| openraft::testing::Suite::<TypeConfig, _, _, _, ()>::test_all(|| async { MemStore::new() }));
    match mem {
        Ok(Ok(())) => rep.log("MemStore: conformance suite passed"),
        Ok(Err(e)) => rep.violate("openraft-conformance-suite-failed", "MemStore", format!("{}", e)),
        Err(_) => rep.violate("openraft-conformance-suite-failed", "MemStore", "an assertion of the suite failed (panic)".to_string()),
    }
    let counter = std::sync::Arc::new(std::sync::atomic::AtomicU64::new(0));
    let c2 = counter.clone();
    let base = scratch("suite");
    let b2 = base.clone();
    let rocks = std::panic::catch_unwind(std::panic::AssertUnwindSafe(move || {
        openraft::testing::Suite::<TypeConfig, _, _, _, ()>::test_all(move || {
            let n = c2.fetch_add(1, std::sync::atomic::Ordering::SeqCst);
            let d = b2.join(format!("db{}", n));
            async move { RocksStore::open(d.to_str().unwrap()).expect("open") }
        })
    }));
    match rocks {
        Ok(Ok(())) => rep.log("RocksStore: conformance suite passed"),
        Ok(Err(e)) => rep.violate("openraft-conformance-suite-failed", "RocksStore", format!("{}", e)),
        Err(_) => rep.violate("openraft-conformance-suite-failed", "RocksStore", "an assertion of the suite failed (panic)".to_string()),
    }
    let _ = std::fs::remove_dir_all(&base);
    rep.ops += counter.load(std::sync::atomic::Ordering::SeqCst);
    rep.nontrivial = true;
}
