//! Minimal manual executor: futures are polled one at a time, in the order the
//! simulator (the tape) decides. No threads, no timers, no runtime.

use std::future::Future;
use std::pin::Pin;
use std::sync::Arc;
use std::task::{Context, Poll, Wake, Waker};

struct Noop;
impl Wake for Noop {
    fn wake(self: Arc<Self>) {}
}

pub fn noop_waker() -> Waker {
    Waker::from(Arc::new(Noop))
}

pub struct Task<T> {
    fut: Option<Pin<Box<dyn Future<Output = T>>>>,
    pub result: Option<T>,
}

impl<T> Task<T> {
    pub fn new(f: impl Future<Output = T> + 'static) -> Self {
        Task { fut: Some(Box::pin(f)), result: None }
    }
    pub fn done(&self) -> bool {
        self.fut.is_none()
    }
    /// Poll once. Returns true if the task completed on this poll.
    pub fn poll(&mut self) -> bool {
        if let Some(f) = self.fut.as_mut() {
            let w = noop_waker();
            let mut cx = Context::from_waker(&w);
            if let Poll::Ready(v) = f.as_mut().poll(&mut cx) {
                self.result = Some(v);
                self.fut = None;
                return true;
            }
        }
        false
    }
}

/// Drive a future that is expected never to suspend (or to suspend only on
/// things that become ready by re-polling). Panics after `max_polls`.
pub fn block_on_ready<T>(f: impl Future<Output = T>) -> T {
    let mut f = std::pin::pin!(f);
    let w = noop_waker();
    let mut cx = Context::from_waker(&w);
    for _ in 0..10_000 {
        if let Poll::Ready(v) = f.as_mut().poll(&mut cx) {
            return v;
        }
    }
    panic!("vsim harness: future did not complete under block_on_ready");
}
