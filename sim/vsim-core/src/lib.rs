//! vsim-core: the deterministic simulator's kernel. No varpulis dependencies.
pub mod clock;
pub mod driver;
pub mod exec;
pub mod rng;
pub mod tape;

pub use driver::{Batch, Prop, Report, SimCrash, Violation, World};
pub use tape::Tape;
