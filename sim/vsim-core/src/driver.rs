//! Batch driver shared by all worlds: seed fan-out over worker processes,
//! replay, tape minimisation, known-findings matching, evidence.
//!
//! Exit codes: 0 = property held on everything explored (or only listed known
//! findings were hit); 1 = at least one unlisted violation (VIOLATION line
//! printed); 2 = harness error (never a verdict).

use crate::clock;
use crate::rng::{hash_str, mix};
use crate::tape::Tape;
use serde_json::{json, Value};
use std::collections::{BTreeMap, BTreeSet, HashSet};
use std::io::{BufRead, Write};
use std::sync::Mutex;

pub const DEFAULT_SEED: u64 = 20260921;

#[derive(Clone, Debug)]
pub struct Violation {
    pub class: String,
    pub sig: String,
    pub detail: String,
}

#[derive(Default)]
pub struct Report {
    pub trace: Vec<String>,
    pub violations: Vec<Violation>,
    pub faults: BTreeMap<String, u64>,
    pub probes: BTreeMap<String, u64>,
    pub states: BTreeSet<u64>,
    pub sim_ns: u64,
    pub ops: u64,
    pub not_judged: u64,
    pub nontrivial: bool,
    pub config: String,
}

impl Report {
    pub fn log(&mut self, s: impl Into<String>) {
        if self.trace.len() < 4000 {
            self.trace.push(s.into());
        }
    }
    pub fn fault(&mut self, kind: &str) {
        *self.faults.entry(kind.to_string()).or_insert(0) += 1;
    }
    pub fn probe(&mut self, name: &str) {
        *self.probes.entry(name.to_string()).or_insert(0) += 1;
    }
    pub fn state(&mut self, sig: u64) {
        if self.states.len() < 256 {
            self.states.insert(sig);
        }
    }
    pub fn violate(&mut self, class: &str, sig: &str, detail: impl Into<String>) {
        let detail = detail.into();
        self.log(format!("!! VIOLATION class={} sig={} :: {}", class, sig, detail));
        if !self.violations.iter().any(|v| v.class == class && v.sig == sig) {
            self.violations.push(Violation { class: class.into(), sig: sig.into(), detail });
        }
    }
    pub fn violated(&self) -> bool {
        !self.violations.is_empty()
    }
    pub fn trace_hash(&self) -> u64 {
        let mut h = 0xcbf2_9ce4_8422_2325u64;
        for l in &self.trace {
            h = mix(&[h, hash_str(l)]);
        }
        h
    }
}

pub struct Batch {
    pub name: &'static str,
    pub quick: u64,
    pub thorough: u64,
    /// true if this batch injects faults (reported separately in the evidence)
    pub faulty: bool,
}

pub struct Prop {
    pub id: &'static str,
    pub batches: Vec<Batch>,
    pub rule: &'static str,
    pub real: Vec<&'static str>,
    pub stub: Vec<&'static str>,
    pub assumptions: Vec<&'static str>,
}

pub trait World: Sync {
    fn name(&self) -> &'static str;
    fn props(&self) -> Vec<Prop>;
    /// One simulated run. Every decision must come from `tape`.
    fn run(&self, prop: &str, batch: &str, tape: &mut Tape, rep: &mut Report);
}

static PANIC_MSG: Mutex<Option<String>> = Mutex::new(None);

fn install_panic_hook() {
    std::panic::set_hook(Box::new(|info| {
        let loc = info.location().map(|l| format!("{}:{}", l.file(), l.line())).unwrap_or_default();
        let msg = if let Some(s) = info.payload().downcast_ref::<&str>() {
            s.to_string()
        } else if let Some(s) = info.payload().downcast_ref::<String>() {
            s.clone()
        } else {
            "<non-string panic>".to_string()
        };
        if std::env::var("VSIM_DEBUG_PANIC").is_ok() {
            eprintln!("PANIC: {} @ {}", msg, loc);
        }
        let mut g = PANIC_MSG.lock().unwrap_or_else(|e| e.into_inner());
        if g.is_none() {
            *g = Some(format!("{} @ {}", msg, loc));
        }
    }));
}

/// Payload used by worlds to unwind out of a simulated process at a crash point.
pub struct SimCrash;

/// Execute one run on a fresh OS thread (fresh thread-locals: `RandomState`
/// keys, `thread_rng`), under the virtual clock and entropy seam.
pub fn run_one(world: &'static dyn World, prop: &str, batch: &str, mut tape: Tape) -> (Report, Vec<u64>) {
    RUN_STARTED_REAL_NS.store(clock::real_mono_ns(), std::sync::atomic::Ordering::SeqCst);
    let prop = prop.to_string();
    let batch = batch.to_string();
    *PANIC_MSG.lock().unwrap_or_else(|e| e.into_inner()) = None;
    let h = std::thread::Builder::new()
        .name("sim-run".into())
        .stack_size(16 << 20)
        .spawn(move || {
            let eseed = tape.draw(u64::MAX);
            clock::begin_run(eseed);
            let mut rep = Report::default();
            let r = std::panic::catch_unwind(std::panic::AssertUnwindSafe(|| {
                world.run(&prop, &batch, &mut tape, &mut rep);
            }));
            let sim = clock::sim_elapsed_ns();
            clock::end_run();
            if rep.sim_ns == 0 && sim > 0 {
                rep.sim_ns = sim as u64;
            }
            if let Err(p) = r {
                if p.downcast_ref::<SimCrash>().is_some() {
                    rep.violate("harness-uncaught-simcrash", "-", "SimCrash escaped the world");
                } else {
                    let m = PANIC_MSG.lock().unwrap_or_else(|e| e.into_inner()).clone().unwrap_or_else(|| "?".into());
                    let site = m.rsplit(" @ ").next().unwrap_or("?").to_string();
                    // panic locations inside this workspace are relative paths; /repo and std/deps are absolute
                    let cls = if !site.starts_with('/') || m.contains("vsim harness") { "harness-panic" } else { "panic" };
                    rep.violate(cls, &site, m);
                }
            }
            if tape.exhausted {
                rep.violate("harness-tape-exhausted", "-", "run exceeded max draws");
            }
            (rep, tape.record)
        })
        .expect("spawn run thread");
    h.join().expect("run thread join")
}

fn run_seed(base: u64, world: &str, prop: &str, batch: &str, idx: u64) -> u64 {
    mix(&[base, hash_str(world), hash_str(prop), hash_str(batch), idx])
}

fn has(rep: &Report, class: &str, sig: &str) -> bool {
    rep.violations.iter().any(|v| v.class == class && v.sig == sig)
}

/// Tape minimisation ("internal shrinking"): keep a candidate only if the same
/// (class, sig) recurs.
pub fn minimise(world: &'static dyn World, prop: &str, batch: &str, tape: Vec<u64>, class: &str, sig: &str, budget: usize) -> (Vec<u64>, usize) {
    let mut best = tape;
    let mut runs = 0usize;
    let try_cand = |cand: &Vec<u64>, runs: &mut usize| -> Option<Vec<u64>> {
        *runs += 1;
        let (rep, rec) = run_one(world, prop, batch, Tape::replay(cand.clone()));
        if has(&rep, class, sig) {
            // the recorded tape of the replay is canonical (values already reduced mod bound, trailing unused dropped)
            Some(rec)
        } else {
            None
        }
    };
    // canonicalise
    if let Some(r) = try_cand(&best, &mut runs) {
        best = r;
    } else {
        return (best, runs);
    }
    let mut improved = true;
    while improved && runs < budget {
        improved = false;
        // 1. delete chunks
        let mut chunk = (best.len() / 2).max(1);
        while chunk >= 1 && runs < budget {
            let mut i = 1usize; // keep draw 0 (entropy seed) in place
            while i < best.len() && runs < budget {
                let end = (i + chunk).min(best.len());
                let mut cand = best.clone();
                cand.drain(i..end);
                if let Some(r) = try_cand(&cand, &mut runs) {
                    if r.len() < best.len() || r.iter().map(|x| *x as u128).sum::<u128>() < best.iter().map(|x| *x as u128).sum::<u128>() {
                        best = r;
                        improved = true;
                        continue;
                    }
                }
                i += chunk;
            }
            if chunk == 1 {
                break;
            }
            chunk /= 2;
        }
        // 2. zero / halve / decrement values
        let mut i = 1usize;
        while i < best.len() && runs < budget {
            if best[i] != 0 {
                for nv in [0u64, best[i] / 2, best[i] - 1] {
                    if nv >= best[i] {
                        continue;
                    }
                    let mut cand = best.clone();
                    cand[i] = nv;
                    if let Some(r) = try_cand(&cand, &mut runs) {
                        if r.len() <= best.len() {
                            best = r;
                            improved = true;
                            break;
                        }
                    }
                    if runs >= budget {
                        break;
                    }
                }
            }
            i += 1;
        }
    }
    (best, runs)
}

fn verif_root() -> String {
    std::env::var("VERIF_ROOT").unwrap_or_else(|_| "/verif".to_string())
}

fn sanitize(s: &str) -> String {
    s.chars().map(|c| if c.is_ascii_alphanumeric() || c == '-' || c == '_' || c == '.' { c } else { '_' }).collect::<String>().chars().take(60).collect()
}

fn write_replay(world: &'static dyn World, prop: &str, batch: &str, seed: u64, idx: u64, v: &Violation, tape: &[u64], dir: &str) -> String {
    // re-run to get the decoded trace of the minimised tape
    let (rep, rec) = run_one(world, prop, batch, Tape::replay(tape.to_vec()));
    let path = format!("{}/{}-{}-{}-{:016x}.json", dir, prop, sanitize(&v.class), sanitize(&v.sig), seed);
    let detail = rep.violations.iter().find(|x| x.class == v.class && x.sig == v.sig).map(|x| x.detail.clone()).unwrap_or_else(|| v.detail.clone());
    let j = json!({
        "property": prop, "world": world.name(), "batch": batch,
        "violation_class": v.class, "sig": v.sig, "detail": detail,
        "seed": seed, "run_index": idx, "config": rep.config,
        "tape": rec, "trace": rep.trace,
    });
    let _ = std::fs::create_dir_all(dir);
    std::fs::write(&path, serde_json::to_string_pretty(&j).unwrap()).expect("write replay");
    path
}

struct Args {
    mode: String,
    prop: String,
    tier: String,
    seed: u64,
    jobs: usize,
    replay: Option<String>,
    batch: Option<String>,
    from: u64,
    to: u64,
    reverse: bool,
    scale: f64,
    no_min: bool,
}

fn parse_args() -> Args {
    let mut a = Args {
        mode: "check".into(),
        prop: String::new(),
        tier: std::env::var("VERIF_TIER").unwrap_or_else(|_| "quick".into()),
        seed: std::env::var("VERIF_SEED").ok().and_then(|s| s.parse().ok()).unwrap_or(DEFAULT_SEED),
        jobs: std::env::var("VERIF_JOBS").ok().and_then(|s| s.parse().ok()).unwrap_or(16),
        replay: None,
        batch: None,
        from: 0,
        to: 0,
        reverse: false,
        scale: std::env::var("VERIF_SCALE").ok().and_then(|s| s.parse().ok()).unwrap_or(1.0),
        no_min: false,
    };
    let v: Vec<String> = std::env::args().skip(1).collect();
    let mut i = 0;
    while i < v.len() {
        let nxt = |i: usize| v.get(i + 1).cloned().unwrap_or_default();
        match v[i].as_str() {
            "worker" | "check" | "list" | "selftest" | "trace" => a.mode = v[i].clone(),
            "--prop" => { a.prop = nxt(i); i += 1; }
            "--tier" => { a.tier = nxt(i); i += 1; }
            "--seed" => { a.seed = nxt(i).parse().expect("--seed"); i += 1; }
            "--jobs" => { a.jobs = nxt(i).parse().expect("--jobs"); i += 1; }
            "--replay" => { a.replay = Some(nxt(i)); i += 1; }
            "--batch" => { a.batch = Some(nxt(i)); i += 1; }
            "--from" => { a.from = nxt(i).parse().expect("--from"); i += 1; }
            "--to" => { a.to = nxt(i).parse().expect("--to"); i += 1; }
            "--scale" => { a.scale = nxt(i).parse().expect("--scale"); i += 1; }
            "--reverse" => a.reverse = true,
            "--no-min" => a.no_min = true,
            other => { eprintln!("unknown arg {}", other); std::process::exit(2); }
        }
        i += 1;
    }
    a
}

pub fn main(world: &'static dyn World) -> ! {
    let a = parse_args();
    install_panic_hook();
    let code = match a.mode.as_str() {
        "list" => {
            for p in world.props() {
                println!("{} {}", p.id, p.batches.iter().map(|b| b.name).collect::<Vec<_>>().join(","));
            }
            0
        }
        "worker" => worker(world, &a),
        "selftest" => selftest(world, &a),
        "trace" => {
            // debugging aid: print the decoded trace of runs --from..--to of one batch
            let batch = a.batch.clone().expect("--batch");
            for idx in a.from..a.to.max(a.from + 1) {
                let seed = run_seed(a.seed, world.name(), &a.prop, &batch, idx);
                let (rep, _rec) = run_one(world, &a.prop, &batch, Tape::generate(seed));
                println!("== run {} seed {:016x} nontrivial={} faults={:?} probes={:?}", idx, seed, rep.nontrivial, rep.faults, rep.probes);
                for l in &rep.trace {
                    println!("  {}", l);
                }
            }
            0
        }
        _ => {
            if let Some(r) = &a.replay {
                replay(world, &a, r)
            } else {
                check(world, &a)
            }
        }
    };
    std::process::exit(code)
}

static RUN_STARTED_REAL_NS: std::sync::atomic::AtomicI64 = std::sync::atomic::AtomicI64::new(0);

fn start_watchdog() {
    // a simulated actor that never reaches its next scheduling point must not hang the batch:
    // exit 3 (the parent reports a harness error, never a verdict)
    std::thread::spawn(|| loop {
        clock::real_sleep_ms(2000);
        let t = RUN_STARTED_REAL_NS.load(std::sync::atomic::Ordering::SeqCst);
        if t != 0 && clock::real_mono_ns() - t > 180_000_000_000 {
            eprintln!("HARNESS-ERROR: a single simulated run made no progress for 180 s of real time; aborting worker");
            std::process::exit(3);
        }
    });
}

fn worker(world: &'static dyn World, a: &Args) -> i32 {
    start_watchdog();
    let batch = a.batch.clone().expect("--batch");
    let out = std::io::stdout();
    let idxs: Vec<u64> = if a.reverse { (a.from..a.to).rev().collect() } else { (a.from..a.to).collect() };
    let dir = format!("{}/replays-out", verif_root());
    let mut minimised: HashSet<(String, String)> = HashSet::new();
    // listed known findings already have a committed minimised replay: do not spend the budget re-minimising them
    for k in load_known(&a.prop) {
        minimised.insert((k.class.clone(), k.sig.clone()));
    }
    for idx in idxs {
        let seed = run_seed(a.seed, world.name(), &a.prop, &batch, idx);
        let (rep, rec) = run_one(world, &a.prop, &batch, Tape::generate(seed));
        let mut viol = vec![];
        for v in &rep.violations {
            let key = (v.class.clone(), v.sig.clone());
            let mut path = String::new();
            let mut min_runs = 0;
            let mut tape_len = rec.len();
            if !a.no_min && !minimised.contains(&key) {
                minimised.insert(key);
                let (best, n) = minimise(world, &a.prop, &batch, rec.clone(), &v.class, &v.sig, 250);
                min_runs = n;
                tape_len = best.len();
                path = write_replay(world, &a.prop, &batch, seed, idx, v, &best, &dir);
            }
            viol.push(json!({"class": v.class, "sig": v.sig, "detail": v.detail, "replay": path, "min_runs": min_runs, "tape_len": tape_len}));
        }
        let mut j = json!({
            "i": idx, "seed": seed, "th": rep.trace_hash(), "faults": rep.faults, "probes": rep.probes,
            "states": rep.states.iter().collect::<Vec<_>>(), "sim_ns": rep.sim_ns, "ops": rep.ops,
            "nt": rep.nontrivial, "nj": rep.not_judged, "viol": viol, "draws": rec.len(),
        });
        if idx < 2 {
            j["sample"] = json!({"batch": batch, "run_index": idx, "seed": seed, "config": rep.config,
                "trace": rep.trace.iter().take(60).collect::<Vec<_>>()});
        }
        let mut o = out.lock();
        writeln!(o, "{}", j).ok();
    }
    0
}

struct Known {
    class: String,
    sig: String,
    text: String,
    hit: bool,
}

fn load_known(prop: &str) -> Vec<Known> {
    let path = format!("{}/known-findings.txt", verif_root());
    let mut out = vec![];
    if let Ok(s) = std::fs::read_to_string(path) {
        for line in s.lines() {
            let line = line.trim();
            if !line.starts_with("known:") {
                continue;
            }
            let (head, text) = match line.split_once(" :: ") {
                Some((h, t)) => (h, t.to_string()),
                None => (line, String::new()),
            };
            let mut p = "";
            let mut class = "";
            let mut sig = "";
            for tok in head.split_whitespace() {
                if let Some(v) = tok.strip_prefix("property=") { p = v; }
                if let Some(v) = tok.strip_prefix("class=") { class = v; }
                if let Some(v) = tok.strip_prefix("sig=") { sig = v; }
            }
            if p == prop {
                out.push(Known { class: class.into(), sig: sig.into(), text, hit: false });
            }
        }
    }
    out
}

fn spawn_worker(a: &Args, batch: &str, from: u64, to: u64, reverse: bool, no_min: bool) -> std::process::Child {
    let exe = std::env::current_exe().expect("current_exe");
    let mut c = std::process::Command::new(exe);
    c.arg("worker").arg("--prop").arg(&a.prop).arg("--batch").arg(batch).arg("--seed").arg(a.seed.to_string())
        .arg("--from").arg(from.to_string()).arg("--to").arg(to.to_string());
    if reverse { c.arg("--reverse"); }
    if no_min { c.arg("--no-min"); }
    c.stdout(std::process::Stdio::piped()).stderr(std::process::Stdio::inherit());
    c.spawn().expect("spawn worker")
}

fn collect(children: Vec<std::process::Child>, what: &str) -> Result<Vec<Value>, String> {
    // read each child's stdout on its own thread so pipes never fill
    let mut handles = vec![];
    for mut ch in children {
        let so = ch.stdout.take().unwrap();
        handles.push(std::thread::spawn(move || {
            let mut v = vec![];
            for l in std::io::BufReader::new(so).lines().map_while(Result::ok) {
                if let Ok(j) = serde_json::from_str::<Value>(&l) {
                    v.push(j);
                }
            }
            let st = ch.wait();
            (v, st)
        }));
    }
    let mut all = vec![];
    for h in handles {
        let (v, st) = h.join().map_err(|_| "reader thread".to_string())?;
        match st {
            Ok(s) if s.success() => {}
            other => return Err(format!("{}: worker ended abnormally: {:?}", what, other)),
        }
        all.extend(v);
    }
    Ok(all)
}

fn check(world: &'static dyn World, a: &Args) -> i32 {
    let t0 = clock::real_mono_ns();
    let props = world.props();
    let Some(p) = props.iter().find(|p| p.id == a.prop) else {
        eprintln!("HARNESS-ERROR: world {} does not serve property {}", world.name(), a.prop);
        return 2;
    };
    let thorough = a.tier == "thorough";
    if let Ok(rd) = std::fs::read_dir(format!("{}/replays-out", verif_root())) {
        for e in rd.flatten() {
            if e.file_name().to_string_lossy().starts_with(&format!("{}-", p.id)) {
                let _ = std::fs::remove_file(e.path());
            }
        }
    }
    let mut known = load_known(p.id);
    let mut evaluations = 0u64;
    let mut traces: HashSet<u64> = HashSet::new();
    let mut nontrivial: HashSet<u64> = HashSet::new();
    let mut states: HashSet<u64> = HashSet::new();
    let mut faults: BTreeMap<String, u64> = BTreeMap::new();
    let mut probes: BTreeMap<String, u64> = BTreeMap::new();
    let mut sim_ns = 0u128;
    let mut ops = 0u64;
    let mut not_judged = 0u64;
    let mut samples: Vec<Value> = vec![];
    let mut per_batch: BTreeMap<String, Value> = BTreeMap::new();
    // (class,sig) -> (replay path, tape_len, detail, count)
    let mut viols: BTreeMap<(String, String), (String, u64, String, u64)> = BTreeMap::new();
    let mut det_checked = 0u64;
    let mut det_mismatch = 0u64;

    for b in &p.batches {
        let n = ((if thorough { b.thorough } else { b.quick }) as f64 * a.scale).ceil() as u64;
        if n == 0 {
            continue;
        }
        let jobs = (a.jobs as u64).min(n).max(1);
        let mut children = vec![];
        for k in 0..jobs {
            let from = n * k / jobs;
            let to = n * (k + 1) / jobs;
            if to > from {
                children.push(spawn_worker(a, b.name, from, to, false, a.no_min || std::env::var("VSIM_NO_MIN").is_ok()));
            }
        }
        let rows = match collect(children, b.name) {
            Ok(r) => r,
            Err(e) => {
                eprintln!("HARNESS-ERROR: {}", e);
                return 2;
            }
        };
        if rows.len() as u64 != n {
            eprintln!("HARNESS-ERROR: batch {} expected {} results, got {}", b.name, n, rows.len());
            return 2;
        }
        let mut first_hashes: BTreeMap<u64, u64> = BTreeMap::new();
        let (mut b_nt, mut b_viol) = (0u64, 0u64);
        for r in &rows {
            evaluations += 1;
            let th = r["th"].as_u64().unwrap_or(0);
            let idx = r["i"].as_u64().unwrap_or(0);
            first_hashes.insert(idx, th);
            traces.insert(th);
            if r["nt"].as_bool().unwrap_or(false) {
                if nontrivial.insert(th) {
                    b_nt += 1;
                }
            }
            for s in r["states"].as_array().into_iter().flatten() {
                states.insert(s.as_u64().unwrap_or(0));
            }
            for (k, v) in r["faults"].as_object().into_iter().flatten() {
                *faults.entry(k.clone()).or_insert(0) += v.as_u64().unwrap_or(0);
            }
            for (k, v) in r["probes"].as_object().into_iter().flatten() {
                *probes.entry(k.clone()).or_insert(0) += v.as_u64().unwrap_or(0);
            }
            sim_ns += r["sim_ns"].as_u64().unwrap_or(0) as u128;
            ops += r["ops"].as_u64().unwrap_or(0);
            not_judged += r["nj"].as_u64().unwrap_or(0);
            if let Some(s) = r.get("sample") {
                if samples.len() < 4 {
                    samples.push(s.clone());
                }
            }
            for v in r["viol"].as_array().into_iter().flatten() {
                b_viol += 1;
                let key = (v["class"].as_str().unwrap_or("").to_string(), v["sig"].as_str().unwrap_or("").to_string());
                let path = v["replay"].as_str().unwrap_or("").to_string();
                let tl = v["tape_len"].as_u64().unwrap_or(u64::MAX);
                let e = viols.entry(key).or_insert((String::new(), u64::MAX, v["detail"].as_str().unwrap_or("").to_string(), 0));
                e.3 += 1;
                if !path.is_empty() && (e.0.is_empty() || tl < e.1) {
                    e.0 = path;
                    e.1 = tl;
                }
            }
        }
        // determinism slice: re-run the first K runs of this batch in ONE other process, in reverse order
        let k = n.min(if thorough { 64 } else { 16 });
        let rows2 = match collect(vec![spawn_worker(a, b.name, 0, k, true, true)], "determinism-slice") {
            Ok(r) => r,
            Err(e) => {
                eprintln!("HARNESS-ERROR: {}", e);
                return 2;
            }
        };
        for r in &rows2 {
            det_checked += 1;
            let idx = r["i"].as_u64().unwrap_or(0);
            if first_hashes.get(&idx) != r["th"].as_u64().as_ref() {
                det_mismatch += 1;
                eprintln!("HARNESS-ERROR: determinism mismatch world={} prop={} batch={} run={} ", world.name(), p.id, b.name, idx);
            }
        }
        per_batch.insert(b.name.to_string(), json!({"runs": n, "faulty": b.faulty, "distinct_nontrivial_new": b_nt, "violating_runs": b_viol}));
    }
    if det_mismatch > 0 {
        return 2;
    }
    // keep only the selected (shortest) replay per (class, sig)
    {
        let keep: HashSet<&String> = viols.values().map(|v| &v.0).collect();
        if let Ok(rd) = std::fs::read_dir(format!("{}/replays-out", verif_root())) {
            for e in rd.flatten() {
                let pth = e.path().to_string_lossy().to_string();
                if e.file_name().to_string_lossy().starts_with(&format!("{}-", p.id)) && !keep.contains(&pth) {
                    let _ = std::fs::remove_file(e.path());
                }
            }
        }
    }
    // classify
    let mut unlisted = 0;
    let mut known_hit = vec![];
    let mut lines = vec![];
    for ((class, sig), (path, _tl, detail, count)) in &viols {
        if class.starts_with("harness-") {
            eprintln!("HARNESS-ERROR: {} {} :: {} (replay {})", class, sig, detail, path);
            return 2;
        }
        if let Some(k) = known.iter_mut().find(|k| &k.class == class && &k.sig == sig) {
            k.hit = true;
            known_hit.push(json!({"class": class, "sig": sig, "runs": count, "replay": path}));
        } else {
            unlisted += 1;
            lines.push(format!("VIOLATION property={} replay={} class={} sig={} runs={} :: {}", p.id, path, class, sig, count, detail));
        }
    }
    for k in &known {
        if k.hit {
            println!("KNOWN-FINDING: property={} class={} sig={} {}", p.id, k.class, k.sig, k.text);
        }
    }
    for l in &lines {
        println!("{}", l);
    }
    let wall = (clock::real_mono_ns() - t0) as f64 / 1e9;
    let zero_probes: Vec<&String> = probes.iter().filter(|(_, v)| **v == 0).map(|(k, _)| k).collect();
    let ev = json!({
        "property_id": p.id,
        "tier": if thorough { "thorough" } else { "quick" },
        "seed": a.seed,
        "level": "exploration",
        "wall_s": wall,
        "violations": unlisted,
        "coverage": {
            "evaluations": evaluations,
            "distinct_nontrivial": nontrivial.len(),
            "rule": p.rule,
            "samples": samples,
            "distinct_traces": traces.len(),
            "states": states.len(),
            "exhaustive": false,
            "trusted_base": p.stub,
            "explanation": "Deterministic simulation with fault injection: every run is decided by one seed (workload, schedule, delays, faults, crash points); the property is checked as invariants during the run and over the recorded history; violations are minimised on the choice tape and replay exactly. Sampled, not exhaustive: a clean batch is evidence over the runs counted here. `states` counts distinct abstract-state signatures reached (world-specific), `distinct_traces` distinct decoded traces (interleavings + fault placements).",
            "distinct_abstract_states": states.len(),
            "runs_per_hour": if wall > 0.0 { (evaluations as f64 / wall * 3600.0) as u64 } else { 0 },
            "simulated_seconds": (sim_ns as f64) / 1e9,
            "workload_ops": ops,
            "oracle_not_judged": not_judged,
            "faults_fired": faults,
            "probes": probes,
            "probes_stuck_at_zero": zero_probes,
            "batches": per_batch,
            "determinism_selfcheck": {"runs_repeated_in_other_process_reverse_order": det_checked, "mismatches": det_mismatch},
            "known_findings_hit": known_hit,
            "world": world.name(),
            "real_components": p.real,
            "stub_components": p.stub,
        },
        "assumptions": p.assumptions,
    });
    let evdir = format!("{}/evidence", verif_root());
    let _ = std::fs::create_dir_all(&evdir);
    if let Err(e) = std::fs::write(format!("{}/{}.json", evdir, p.id), serde_json::to_string_pretty(&ev).unwrap()) {
        eprintln!("HARNESS-ERROR: cannot write evidence: {}", e);
        return 2;
    }
    println!(
        "{} {} tier={} seed={} runs={} distinct_nontrivial={} traces={} sim_s={:.1} wall_s={:.1} unlisted_violations={} known_hit={}",
        world.name(), p.id, a.tier, a.seed, evaluations, nontrivial.len(), traces.len(), sim_ns as f64 / 1e9, wall, unlisted, known.iter().filter(|k| k.hit).count()
    );
    if unlisted > 0 { 1 } else { 0 }
}

/// Determinism self-test: for every property and batch of this world, the first N runs are executed twice — once
/// fanned out over 16 processes in index order, once over 3 processes in reverse order — and every per-run trace
/// hash must agree. One JSON line per batch on stdout; exit 2 on any mismatch.
fn selftest(world: &'static dyn World, a: &Args) -> i32 {
    let mut bad = 0u64;
    for p in world.props() {
        if !a.prop.is_empty() && a.prop != p.id {
            continue;
        }
        let mut a2 = Args { mode: "worker".into(), prop: p.id.to_string(), tier: a.tier.clone(), seed: a.seed, jobs: a.jobs, replay: None, batch: None, from: 0, to: 0, reverse: false, scale: 1.0, no_min: true };
        for b in &p.batches {
            let n = ((b.quick as f64 * a.scale).ceil() as u64).clamp(1, b.quick.max(1)).min(if a.to > 0 { a.to } else { 400 });
            a2.batch = Some(b.name.to_string());
            let split = |jobs: u64, reverse: bool| -> Result<BTreeMap<u64, u64>, String> {
                let mut ch = vec![];
                for k in 0..jobs.min(n) {
                    let (from, to) = (n * k / jobs.min(n), n * (k + 1) / jobs.min(n));
                    if to > from { ch.push(spawn_worker(&a2, b.name, from, to, reverse, true)); }
                }
                Ok(collect(ch, b.name)?.iter().map(|r| (r["i"].as_u64().unwrap_or(0), r["th"].as_u64().unwrap_or(0))).collect())
            };
            let (h1, h2) = match (split(16, false), split(3, true)) {
                (Ok(x), Ok(y)) => (x, y),
                (Err(e), _) | (_, Err(e)) => { eprintln!("HARNESS-ERROR: {}", e); return 2; }
            };
            let mism: Vec<u64> = h1.iter().filter(|(i, h)| h2.get(i) != Some(h)).map(|(i, _)| *i).collect();
            bad += mism.len() as u64;
            println!("{}", json!({"world": world.name(), "property": p.id, "batch": b.name, "runs_compared": h1.len(), "mismatches": mism.len(), "first_mismatching_runs": mism.iter().take(5).collect::<Vec<_>>()}));
        }
    }
    if bad > 0 { eprintln!("HARNESS-ERROR: determinism self-test found {} mismatching runs", bad); 2 } else { 0 }
}

fn replay(world: &'static dyn World, a: &Args, path: &str) -> i32 {
    let s = match std::fs::read_to_string(path) {
        Ok(s) => s,
        Err(e) => { eprintln!("HARNESS-ERROR: cannot read {}: {}", path, e); return 2; }
    };
    let j: Value = match serde_json::from_str(&s) {
        Ok(j) => j,
        Err(e) => { eprintln!("HARNESS-ERROR: bad replay file: {}", e); return 2; }
    };
    let prop = j["property"].as_str().unwrap_or(&a.prop).to_string();
    let batch = j["batch"].as_str().unwrap_or("").to_string();
    let class = j["violation_class"].as_str().unwrap_or("").to_string();
    let sig = j["sig"].as_str().unwrap_or("").to_string();
    let tape: Vec<u64> = j["tape"].as_array().into_iter().flatten().map(|v| v.as_u64().unwrap_or(0)).collect();
    let (rep, _rec) = run_one(world, &prop, &batch, Tape::replay(tape));
    for l in &rep.trace {
        println!("  {}", l);
    }
    let same_trace = j["trace"].as_array().map(|t| t.iter().map(|x| x.as_str().unwrap_or("").to_string()).collect::<Vec<_>>() == rep.trace).unwrap_or(false);
    if has(&rep, &class, &sig) {
        let known = load_known(&prop);
        println!("replay reproduced class={} sig={} trace_identical={}", class, sig, same_trace);
        if let Some(k) = known.iter().find(|k| k.class == class && k.sig == sig) {
            println!("KNOWN-FINDING: property={} class={} sig={} {}", prop, class, sig, k.text);
            0
        } else {
            println!("VIOLATION property={} replay={} class={} sig={}", prop, path, class, sig);
            1
        }
    } else {
        println!("replay did NOT reproduce class={} sig={} (violations now: {:?})", class, sig, rep.violations.iter().map(|v| (&v.class, &v.sig)).collect::<Vec<_>>());
        // on a repaired tree a replay legitimately stops reproducing: exit 0, nothing to report
        0
    }
}
