//! The choice tape: every decision of a run is one `draw(bound)`.
//! Generation mode draws from the PRNG and records; replay mode returns the
//! recorded value (mod bound; 0 once exhausted). Logging never draws.

use crate::rng::Rng;

pub struct Tape {
    rng: Option<Rng>,
    replay: Vec<u64>,
    pos: usize,
    pub record: Vec<u64>,
    /// Hard cap on draws per run so a run can never be unbounded.
    pub max_draws: usize,
    pub exhausted: bool,
}

impl Tape {
    pub fn generate(seed: u64) -> Self {
        Tape { rng: Some(Rng::new(seed)), replay: vec![], pos: 0, record: Vec::new(), max_draws: 200_000, exhausted: false }
    }
    pub fn replay(values: Vec<u64>) -> Self {
        Tape { rng: None, replay: values, pos: 0, record: Vec::new(), max_draws: 200_000, exhausted: false }
    }
    #[inline]
    pub fn draw(&mut self, bound: u64) -> u64 {
        if self.record.len() >= self.max_draws {
            self.exhausted = true;
            return 0;
        }
        let v = match &mut self.rng {
            Some(r) => r.below(bound),
            None => {
                let v = if self.pos < self.replay.len() { self.replay[self.pos] } else { 0 };
                self.pos += 1;
                if bound <= 1 { 0 } else { v % bound }
            }
        };
        self.record.push(v);
        v
    }
    /// true with probability num/den
    #[inline]
    pub fn chance(&mut self, num: u64, den: u64) -> bool {
        // value 0 (the shrink target) must mean "no fault": true iff draw >= den-num
        self.draw(den) >= den.saturating_sub(num)
    }
    #[inline]
    pub fn range(&mut self, lo: u64, hi_incl: u64) -> u64 {
        lo + self.draw(hi_incl - lo + 1)
    }
    #[inline]
    pub fn pick<'a, T>(&mut self, xs: &'a [T]) -> &'a T {
        &xs[self.draw(xs.len() as u64) as usize]
    }
    pub fn draws(&self) -> usize {
        self.record.len()
    }
}
