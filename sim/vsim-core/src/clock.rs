//! Link-level seams for time and entropy.
//!
//! The world binaries expand `vsim_core::interpose!()`, which defines
//! `clock_gettime`, `getrandom` and `syscall` with C linkage. std, chrono, tokio,
//! rand, uuid and `HashMap`'s `RandomState` all resolve to these at link time, so
//! every clock read and every entropy read in the process is owned by the
//! simulator while a run is active, with no source change in /repo.
//! Outside a run (driver, build of evidence) they pass through to the kernel.

use std::sync::atomic::{AtomicBool, AtomicI64, AtomicU64, Ordering};

pub static ACTIVE: AtomicBool = AtomicBool::new(false);
pub static MONO_NS: AtomicI64 = AtomicI64::new(0);
pub static REAL_NS: AtomicI64 = AtomicI64::new(0);
static ENTROPY_SEED: AtomicU64 = AtomicU64::new(0);
static ENTROPY_CTR: AtomicU64 = AtomicU64::new(0);
pub static CLOCK_READS: AtomicU64 = AtomicU64::new(0);

pub const MONO_BASE_NS: i64 = 1_000_000 * 1_000_000_000; // 1e6 s after "boot"
pub const REAL_BASE_NS: i64 = 1_767_225_600 * 1_000_000_000; // 2026-01-01T00:00:00Z

/// Start owning the clock and entropy for one run.
pub fn begin_run(seed: u64) {
    MONO_NS.store(MONO_BASE_NS, Ordering::SeqCst);
    REAL_NS.store(REAL_BASE_NS, Ordering::SeqCst);
    ENTROPY_SEED.store(seed, Ordering::SeqCst);
    ENTROPY_CTR.store(0, Ordering::SeqCst);
    CLOCK_READS.store(0, Ordering::SeqCst);
    ACTIVE.store(true, Ordering::SeqCst);
}
pub fn end_run() {
    ACTIVE.store(false, Ordering::SeqCst);
}
/// Advance both clocks (normal passage of time).
pub fn advance_ns(ns: i64) {
    MONO_NS.fetch_add(ns, Ordering::SeqCst);
    REAL_NS.fetch_add(ns, Ordering::SeqCst);
}
/// Jump only the wall clock (NTP step / skew); the monotonic clock is untouched.
pub fn jump_wall_ns(ns: i64) {
    REAL_NS.fetch_add(ns, Ordering::SeqCst);
}
pub fn mono_ns() -> i64 {
    MONO_NS.load(Ordering::SeqCst)
}
/// Virtual monotonic time since run start, ns.
pub fn sim_elapsed_ns() -> i64 {
    MONO_NS.load(Ordering::SeqCst) - MONO_BASE_NS
}
pub fn set_mono_ns(abs: i64) {
    let old = MONO_NS.swap(abs, Ordering::SeqCst);
    REAL_NS.fetch_add(abs - old, Ordering::SeqCst);
}

/// Real (kernel) monotonic nanoseconds, bypassing the seam. For wall_s only.
pub fn real_mono_ns() -> i64 {
    let mut ts = libc::timespec { tv_sec: 0, tv_nsec: 0 };
    unsafe { raw_syscall6(libc::SYS_clock_gettime as i64, libc::CLOCK_MONOTONIC as usize, &mut ts as *mut _ as usize, 0, 0, 0, 0) };
    ts.tv_sec as i64 * 1_000_000_000 + ts.tv_nsec as i64
}

/// Real sleep, bypassing nothing (nanosleep is not interposed); for watchdogs only.
pub fn real_sleep_ms(ms: u64) {
    let ts = libc::timespec { tv_sec: (ms / 1000) as i64, tv_nsec: ((ms % 1000) * 1_000_000) as i64 };
    unsafe { libc::nanosleep(&ts, std::ptr::null_mut()) };
}

#[inline]
pub unsafe fn raw_syscall6(n: i64, a1: usize, a2: usize, a3: usize, a4: usize, a5: usize, a6: usize) -> i64 {
    let ret: i64;
    std::arch::asm!(
        "syscall",
        inlateout("rax") n => ret,
        in("rdi") a1, in("rsi") a2, in("rdx") a3, in("r10") a4, in("r8") a5, in("r9") a6,
        lateout("rcx") _, lateout("r11") _,
        options(nostack)
    );
    ret
}

pub unsafe fn clock_gettime_impl(clk: libc::clockid_t, ts: *mut libc::timespec) -> libc::c_int {
    if ACTIVE.load(Ordering::Relaxed) {
        let v = match clk {
            libc::CLOCK_MONOTONIC | libc::CLOCK_MONOTONIC_RAW | libc::CLOCK_MONOTONIC_COARSE | libc::CLOCK_BOOTTIME => Some(MONO_NS.load(Ordering::SeqCst)),
            libc::CLOCK_REALTIME | libc::CLOCK_REALTIME_COARSE => Some(REAL_NS.load(Ordering::SeqCst)),
            _ => None,
        };
        if let Some(ns) = v {
            CLOCK_READS.fetch_add(1, Ordering::Relaxed);
            (*ts).tv_sec = ns.div_euclid(1_000_000_000) as libc::time_t;
            (*ts).tv_nsec = ns.rem_euclid(1_000_000_000) as _;
            return 0;
        }
    }
    let r = raw_syscall6(libc::SYS_clock_gettime as i64, clk as usize, ts as usize, 0, 0, 0, 0);
    if r < 0 {
        *libc::__errno_location() = (-r) as i32;
        -1
    } else {
        0
    }
}

unsafe fn fill_entropy(buf: *mut u8, len: usize) {
    let seed = ENTROPY_SEED.load(Ordering::SeqCst);
    let mut i = 0usize;
    while i < len {
        let c = ENTROPY_CTR.fetch_add(1, Ordering::SeqCst);
        let mut x = seed ^ c.wrapping_mul(0xD6E8_FEB8_6659_FD93);
        let v = crate::rng::splitmix64(&mut x).to_le_bytes();
        let n = (len - i).min(8);
        std::ptr::copy_nonoverlapping(v.as_ptr(), buf.add(i), n);
        i += n;
    }
}

pub unsafe fn getrandom_impl(buf: *mut libc::c_void, len: libc::size_t, flags: libc::c_uint) -> libc::ssize_t {
    if ACTIVE.load(Ordering::Relaxed) {
        fill_entropy(buf as *mut u8, len);
        return len as libc::ssize_t;
    }
    let r = raw_syscall6(libc::SYS_getrandom as i64, buf as usize, len, flags as usize, 0, 0, 0);
    if r < 0 {
        *libc::__errno_location() = (-r) as i32;
        -1
    } else {
        r as libc::ssize_t
    }
}

pub unsafe fn syscall_impl(n: libc::c_long, a1: usize, a2: usize, a3: usize, a4: usize, a5: usize, a6: usize) -> libc::c_long {
    if n == libc::SYS_getrandom && ACTIVE.load(Ordering::Relaxed) {
        fill_entropy(a1 as *mut u8, a2);
        return a2 as libc::c_long;
    }
    let r = raw_syscall6(n as i64, a1, a2, a3, a4, a5, a6);
    if r < 0 && r > -4096 {
        *libc::__errno_location() = (-r) as i32;
        -1
    } else {
        r as libc::c_long
    }
}

#[macro_export]
macro_rules! interpose {
    () => {
        #[no_mangle]
        pub unsafe extern "C" fn clock_gettime(clk: ::libc::clockid_t, ts: *mut ::libc::timespec) -> ::libc::c_int {
            $crate::clock::clock_gettime_impl(clk, ts)
        }
        #[no_mangle]
        pub unsafe extern "C" fn getrandom(buf: *mut ::libc::c_void, len: ::libc::size_t, flags: ::libc::c_uint) -> ::libc::ssize_t {
            $crate::clock::getrandom_impl(buf, len, flags)
        }
        #[no_mangle]
        pub unsafe extern "C" fn syscall(n: ::libc::c_long, a1: usize, a2: usize, a3: usize, a4: usize, a5: usize, a6: usize) -> ::libc::c_long {
            $crate::clock::syscall_impl(n, a1, a2, a3, a4, a5, a6)
        }
    };
}
