//! xoshiro256** + splitmix64. Own implementation so that a `rand` bump can never change a schedule.

#[inline]
pub fn splitmix64(x: &mut u64) -> u64 {
    *x = x.wrapping_add(0x9E37_79B9_7F4A_7C15);
    let mut z = *x;
    z = (z ^ (z >> 30)).wrapping_mul(0xBF58_476D_1CE4_E5B9);
    z = (z ^ (z >> 27)).wrapping_mul(0x94D0_49BB_1331_11EB);
    z ^ (z >> 31)
}

/// Mix several integers into one seed.
pub fn mix(parts: &[u64]) -> u64 {
    let mut s = 0x243F_6A88_85A3_08D3u64;
    let mut out = 0u64;
    for p in parts {
        s ^= *p;
        out = splitmix64(&mut s) ^ out.rotate_left(17);
    }
    out
}

pub fn hash_str(s: &str) -> u64 {
    // FNV-1a 64
    let mut h = 0xcbf2_9ce4_8422_2325u64;
    for b in s.as_bytes() {
        h ^= *b as u64;
        h = h.wrapping_mul(0x0000_0100_0000_01B3);
    }
    h
}

#[derive(Clone, Debug)]
pub struct Rng {
    s: [u64; 4],
}

impl Rng {
    pub fn new(seed: u64) -> Self {
        let mut x = seed;
        let s = [
            splitmix64(&mut x),
            splitmix64(&mut x),
            splitmix64(&mut x),
            splitmix64(&mut x),
        ];
        Rng { s }
    }
    #[inline]
    pub fn next_u64(&mut self) -> u64 {
        let r = self.s[1].wrapping_mul(5).rotate_left(7).wrapping_mul(9);
        let t = self.s[1] << 17;
        self.s[2] ^= self.s[0];
        self.s[3] ^= self.s[1];
        self.s[1] ^= self.s[2];
        self.s[0] ^= self.s[3];
        self.s[2] ^= t;
        self.s[3] = self.s[3].rotate_left(45);
        r
    }
    /// Uniform in 0..bound (bound ≥ 1); slight modulo bias is irrelevant here.
    #[inline]
    pub fn below(&mut self, bound: u64) -> u64 {
        if bound <= 1 {
            0
        } else {
            self.next_u64() % bound
        }
    }
}
